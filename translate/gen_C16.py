#!/usr/bin/env python3
"""Structural translator for C16: regenerates lean/Pyunicorn/Generated/StructC16.lean from
`src/pyunicorn/eventseries/event_series.py` of the *current* working tree on every run.

  event_coincidence_analysis / _eca_coincidence_rate
      every statement `X = np.count_nonzero(np.any((W)[r0:r1, c0:c1], axis=k))`
      -> `CountSpec` (slice bounds as names of the boundary counts, axis), in source order:
         ecaPrec12, ecaTrig12, ecaPrec21, ecaTrig21,
         rateAdv12, rateAdv21, rateRet12, rateRet21, rateSym12, rateSym21;
      every statement `nXY = len(e[e <cmp> e[k] ...])` -> which array is filtered and
      measured and which element is the reference: `(array, refIndex)` (`ecaN11` ...)
  _symmetrization_*  -> `SymHelper` (returned expression over (matrix, matrix.T), whether the
      result is a fresh array, whether anything stores into the argument)
  __init__           -> `symmOptions`: option name -> helper (the `symmetrization_options` dict)
  event_series_analysis -> the symmetrisations / windows accepted per method, the workers
      called, that the worker's array is handed to the chosen helper and its result returned
  make_event_matrix (round 4) -> dtype of the arrays `thresholds` / `eventmatrix` (the `dtype`
      keyword of their one allocation, float64 if absent), the right-hand sides stored into
      `thresholds[i]`, the marking comparisons
  the installed NumPy's numpy/lib/_function_base_impl.py (round 4) -> the expressions of the
      'linear' quantile method (`get_virtual_index`, `fix_gamma`, `_compute_virtual_index`,
      `_get_gamma`, `_get_indexes`, `_lerp`), the default method, the wiring of `_quantile`,
      the slices of `_median`
  _ndim_event_synchronization / _ndim_event_coincidence_analysis
      -> decorators (memoised or not), loop bounds (as Lean functions), the two stores per
         iteration, the columns and time stamps passed to the pair function

Anything that no longer has the expected *shape* raises (a broken tie, settled by the
failing-input search); *content* is compared by the theorems of `Properties/C16.lean`
(section "structural tie").
"""
import ast
import os
import sys

REPO = os.environ.get("VERIF_REPO", "/repo")
OUT = sys.argv[1]
SRC = os.path.join(REPO, "src/pyunicorn/eventseries/event_series.py")


class Shape(Exception):
    pass


def need(c, msg):
    if not c:
        raise Shape(msg)


def u(n):
    return ast.unparse(n)


def find_class(mod, name):
    for n in mod.body:
        if isinstance(n, ast.ClassDef) and n.name == name:
            return n
    raise Shape(f"class {name} not found")


def find_func(cls, name):
    for n in cls.body:
        if isinstance(n, ast.FunctionDef) and n.name == name:
            return n
    raise Shape(f"method {name} not found")


def stmts_in_order(fn):
    """all statements of fn in source order"""
    out = []

    def rec(body):
        for st in body:
            out.append(st)
            for f in ("body", "orelse", "finalbody"):
                if hasattr(st, f):
                    rec(getattr(st, f))
    rec(fn.body)
    return out


BND = {"n11", "n12", "n21", "n22"}


def lower(n):
    if n is None:
        return "zero"
    need(isinstance(n, ast.Name) and n.id in BND, f"slice lower bound {u(n)}")
    return n.id


def upper(n, axis):
    if n is None:
        return "zero"
    need(isinstance(n, ast.BinOp) and isinstance(n.op, ast.Sub) and
         u(n.left) == f"dst.shape[{axis}]" and isinstance(n.right, ast.Name) and
         n.right.id in BND, f"slice upper bound {u(n)} on axis {axis}")
    return n.right.id


def count_spec(st):
    """`X = np.count_nonzero(np.any(W[rs, cs], axis=k))` -> (rowLo,rowHi,colLo,colHi,axis)"""
    v = st.value
    need(isinstance(v, ast.Call) and u(v.func) == "np.count_nonzero" and len(v.args) == 1
         and not v.keywords, f"count statement {u(st)}")
    a = v.args[0]
    need(isinstance(a, ast.Call) and u(a.func) == "np.any" and len(a.args) == 1 and
         len(a.keywords) == 1 and a.keywords[0].arg == "axis" and
         isinstance(a.keywords[0].value, ast.Constant), f"np.any(...) in {u(st)}")
    axis = a.keywords[0].value.value
    need(axis in (0, 1), f"axis {axis}")
    sub = a.args[0]
    need(isinstance(sub, ast.Subscript) and isinstance(sub.slice, ast.Tuple) and
         len(sub.slice.elts) == 2 and all(isinstance(e, ast.Slice) and e.step is None
                                          for e in sub.slice.elts),
         f"two-axis slice in {u(st)}")
    # the sliced matrix must be built from `dst` alone (entry [i,j] a function of dst[i,j])
    names = {n.id for n in ast.walk(sub.value) if isinstance(n, ast.Name)}
    need("dst" in names and not (names & {"e1", "e2"}), f"sliced matrix {u(sub.value)}")
    r, c = sub.slice.elts
    return (lower(r.lower), upper(r.upper, 0), lower(c.lower), upper(c.upper, 1), axis)


def boundary(st):
    """`n = len(e[e <cmp> e[k] ...])` -> (array, k)"""
    v = st.value
    need(isinstance(v, ast.Call) and u(v.func) == "len" and len(v.args) == 1, u(st))
    s = v.args[0]
    need(isinstance(s, ast.Subscript) and isinstance(s.value, ast.Name) and
         isinstance(s.slice, ast.Compare) and len(s.slice.ops) == 1 and
         isinstance(s.slice.left, ast.Name) and s.slice.left.id == s.value.id, u(st))
    arr = s.value.id
    refs = [n for n in ast.walk(s.slice.comparators[0]) if isinstance(n, ast.Subscript)]
    need(len(refs) == 1 and u(refs[0].value) == arr, u(st))
    k = ast.literal_eval(refs[0].slice)
    need(k in (0, -1), u(st))
    return arr, k


def sym_helper(fn):
    need([a.arg for a in fn.args.args] == ["matrix"], f"{fn.name} parameters")
    body = [s for s in fn.body if not (isinstance(s, ast.Expr) and
                                       isinstance(s.value, ast.Constant))]
    rets = [s for s in ast.walk(fn) if isinstance(s, ast.Return)]
    need(len(rets) == 1 and body and body[-1] is rets[0], f"{fn.name}: single final return")
    writes = False
    for n in ast.walk(fn):
        if isinstance(n, ast.AugAssign) and "matrix" in u(n.target):
            writes = True
        if isinstance(n, ast.Assign) and any(isinstance(t, ast.Subscript) and
                                             u(t.value).startswith("matrix")
                                             for t in n.targets):
            writes = True
        if isinstance(n, ast.Call):
            if any(k.arg == "out" and "matrix" in u(k.value) for k in n.keywords):
                writes = True
            if isinstance(n.func, ast.Attribute) and u(n.func.value).startswith("matrix") and \
                    n.func.attr in ("sort", "fill", "put", "itemset", "resize", "partition",
                                    "setfield", "byteswap"):
                writes = True
            if u(n.func) in ("np.fill_diagonal", "np.copyto", "np.put", "np.place",
                             "np.putmask") and n.args and "matrix" in u(n.args[0]):
                writes = True
    need(len(body) == 1 or writes, f"{fn.name}: statements besides the return")
    e = rets[0].value

    def strip_out(c):
        return [k for k in c.keywords if k.arg != "out"]
    M, MT = "matrix", "matrix.T"
    if isinstance(e, ast.Name) and e.id == "matrix":
        return "arg", False, writes
    if isinstance(e, ast.BinOp) and u(e.left) == M and u(e.right) == MT:
        if isinstance(e.op, ast.Add):
            return "add", True, writes
        if isinstance(e.op, ast.Sub):
            return "sub", True, writes
    if isinstance(e, ast.Call):
        f = u(e.func)
        args = [u(a) for a in e.args]
        if f in ("np.maximum", "np.minimum") and args == [M, MT] and not strip_out(e):
            fresh = not any(k.arg == "out" for k in e.keywords)
            return ("max" if f == "np.maximum" else "min"), fresh, writes
        if f == "np.mean" and args == [f"[{M}, {MT}]"] and \
                [(k.arg, u(k.value)) for k in e.keywords] == [("axis", "0")]:
            return "mean", True, writes
    raise Shape(f"{fn.name}: returned expression {u(e)}")


def int_expr(n, names):
    """loop bound -> Lean Int expression over `names`"""
    if isinstance(n, ast.Constant) and isinstance(n.value, int):
        return f"({n.value} : Int)"
    if isinstance(n, ast.Name) and n.id in names:
        return n.id
    if u(n) == "self.__N":
        return "N"
    if isinstance(n, ast.BinOp) and isinstance(n.op, (ast.Add, ast.Sub)):
        return f"({int_expr(n.left, names)} {'+' if isinstance(n.op, ast.Add) else '-'} " \
               f"{int_expr(n.right, names)})"
    raise Shape(f"loop bound {u(n)}")


def range_bounds(call, names):
    need(isinstance(call, ast.Call) and u(call.func) == "range" and 1 <= len(call.args) <= 2
         and not call.keywords, f"loop range {u(call)}")
    if len(call.args) == 1:
        return "(0 : Int)", int_expr(call.args[0], names)
    return int_expr(call.args[0], names), int_expr(call.args[1], names)


def ndim(fn, pairfn):
    """the double loop of an `_ndim_*` worker"""
    loops = [s for s in fn.body if isinstance(s, ast.For)]
    need(len(loops) == 1, f"{fn.name}: one outer loop")
    o = loops[0]
    need(isinstance(o.target, ast.Name) and len(o.body) == 1 and isinstance(o.body[0], ast.For),
         f"{fn.name}: nested loop")
    i = o.target.id
    inn = o.body[0]
    need(isinstance(inn.target, ast.Name) and len(inn.body) == 1 and
         isinstance(inn.body[0], ast.Assign), f"{fn.name}: loop body")
    j = inn.target.id
    olo, ohi = range_bounds(o.iter, [])
    ilo, ihi = range_bounds(inn.iter, [i])
    st = inn.body[0]
    need(len(st.targets) == 1 and isinstance(st.targets[0], ast.Tuple) and
         len(st.targets[0].elts) == 2, f"{fn.name}: two stores")
    stores = []
    arr = None
    for t in st.targets[0].elts:
        need(isinstance(t, ast.Subscript) and isinstance(t.value, ast.Name) and
             isinstance(t.slice, ast.Tuple) and len(t.slice.elts) == 2 and
             all(isinstance(e, ast.Name) and e.id in (i, j) for e in t.slice.elts),
             f"{fn.name}: store {u(t)}")
        arr = arr or t.value.id
        need(arr == t.value.id, f"{fn.name}: stores into two arrays")
        stores.append(tuple(0 if e.id == i else 1 for e in t.slice.elts))
    c = st.value
    need(isinstance(c, ast.Call) and u(c.func) == f"self.{pairfn}" and len(c.args) == 2,
         f"{fn.name}: pair call {u(c)}")
    cols = []
    for a in c.args:
        need(isinstance(a, ast.Subscript) and u(a.value) == "eventmatrix" and
             isinstance(a.slice, ast.Tuple) and len(a.slice.elts) == 2 and
             u(a.slice.elts[0]) == ":" and isinstance(a.slice.elts[1], ast.Name) and
             a.slice.elts[1].id in (i, j), f"{fn.name}: column argument {u(a)}")
        cols.append(0 if a.slice.elts[1].id == i else 1)
    kws = {k.arg: u(k.value) for k in c.keywords}
    # local names -> the object fields they were read from
    fields = {}
    for s in fn.body:
        if isinstance(s, ast.Assign) and len(s.targets) == 1 and \
                isinstance(s.targets[0], ast.Name) and u(s.value).startswith("self.__"):
            fields[s.targets[0].id] = u(s.value)[len("self.__"):]
    kwf = {k: fields.get(v, v) for k, v in kws.items()}
    # the array returned is the one stored into, created as zeros((N, N))
    ret = [s for s in fn.body if isinstance(s, ast.Return)]
    need(len(ret) == 1 and u(ret[0].value) == arr, f"{fn.name}: returns {arr}")
    init = [s for s in fn.body if isinstance(s, ast.Assign) and u(s.targets[0]) == arr]
    need(len(init) == 1 and u(init[0].value) == "np.zeros((self.__N, self.__N))",
         f"{fn.name}: initialisation of {arr}")
    cached = any("Cached.method" in u(d) for d in fn.decorator_list)
    return dict(olo=olo, ohi=ohi, ilo=ilo, ihi=ihi, i=i, stores=stores, cols=cols, kw=kwf,
                cached=cached)



# ---------------------------------------------------------------------------------------------
# round 4: make_event_matrix (dtype of the threshold array, what is stored into it) and the
# expressions of NumPy's own quantile / median code (the installed NumPy, not the repository)
# ---------------------------------------------------------------------------------------------

def rat_expr(n, env):
    """a NumPy scalar expression -> Lean `Rat` expression; names through `env`"""
    if isinstance(n, ast.Name):
        need(n.id in env, f"free name {n.id}")
        return env[n.id]
    if isinstance(n, ast.Constant) and isinstance(n.value, (int, float)) and \
            not isinstance(n.value, bool):
        from fractions import Fraction
        f = Fraction(n.value)
        return f"({f.numerator} : Rat)" if f.denominator == 1 else \
            f"(({f.numerator} : Rat) / {f.denominator})"
    if isinstance(n, ast.UnaryOp) and isinstance(n.op, ast.USub):
        return f"(-{rat_expr(n.operand, env)})"
    if isinstance(n, ast.BinOp) and isinstance(n.op, (ast.Add, ast.Sub, ast.Mult)):
        op = {ast.Add: "+", ast.Sub: "-", ast.Mult: "*"}[type(n.op)]
        return f"({rat_expr(n.left, env)} {op} {rat_expr(n.right, env)})"
    if isinstance(n, ast.Call) and u(n.func) in ("add", "subtract") and len(n.args) == 2:
        op = "+" if u(n.func) == "add" else "-"
        return f"({rat_expr(n.args[0], env)} {op} {rat_expr(n.args[1], env)})"
    raise Shape(f"expression {u(n)}")


def cmp_expr(n, env):
    need(isinstance(n, ast.Compare) and len(n.ops) == 1, f"comparison {u(n)}")
    op = {ast.GtE: "≥", ast.Lt: "<", ast.LtE: "≤", ast.Gt: ">"}.get(type(n.ops[0]))
    need(op is not None, f"comparison {u(n)}")
    return f"decide ({rat_expr(n.left, env)} {op} {rat_expr(n.comparators[0], env)})"


def int_const(n):
    v = ast.literal_eval(n)
    need(isinstance(v, int), f"integer constant {u(n)}")
    return f"({v} : Int)"


def top_func(mod, name):
    for n in mod.body:
        if isinstance(n, ast.FunctionDef) and n.name == name:
            return n
    raise Shape(f"numpy: function {name} not found")


def assigns(fn, name):
    return [s for s in stmts_in_order(fn) if isinstance(s, ast.Assign) and
            len(s.targets) == 1 and u(s.targets[0]) == name]


def gen_thresholding(cls, out):
    fn = find_func(cls, "make_event_matrix")
    need(any(u(d) == "staticmethod" for d in fn.decorator_list), "make_event_matrix static")

    def alloc(name):
        a = assigns(fn, name)
        need(len(a) == 1, f"make_event_matrix: one allocation of {name}")
        v = a[0].value
        # `np.zeros(shape)` possibly times a constant; the dtype keyword decides the dtype
        calls = [c for c in ast.walk(v) if isinstance(c, ast.Call)]
        z = [c for c in calls if u(c.func) in ("np.zeros", "np.empty", "np.ones", "np.full",
                                               "np.zeros_like", "np.empty_like")]
        need(len(z) == 1 and len(calls) == 1, f"allocation {u(v)}")
        need(u(z[0].func) == "np.zeros", f"allocation {u(v)}")
        kws = {k.arg: u(k.value) for k in z[0].keywords}
        need(set(kws) <= {"dtype"} and len(z[0].args) == 1, f"allocation {u(v)}")
        dt = kws.get("dtype", "float64")
        dt = {"float": "float64", "np.float64": "float64", "'float64'": "float64",
              "'float'": "float64"}.get(dt, dt)
        return a[0].lineno, dt, u(z[0].args[0])
    l1, dt1, sh1 = alloc("thresholds")
    l2, dt2, sh2 = alloc("eventmatrix")
    out.append(f"/-- event_series.py:{l1}: dtype / shape of the array `thresholds` -/")
    out.append(f'def thresholdsDType : String := "{dt1}"')
    out.append(f'def thresholdsShape : String := "{sh1}"')
    out.append(f"/-- event_series.py:{l2}: dtype of the array `eventmatrix` -/")
    out.append(f'def eventmatrixDType : String := "{dt2}"')
    # everything stored into `thresholds`, in source order; nothing else rebinds or edits it
    stores = []
    for st in stmts_in_order(fn):
        if isinstance(st, ast.AugAssign):
            need("thresholds" != u(st.target).split("[")[0], f"augmented store {u(st)}")
        if isinstance(st, ast.Assign):
            for t in st.targets:
                if isinstance(t, ast.Subscript) and u(t.value) == "thresholds":
                    need(u(t.slice) == "i", f"store index {u(t)}")
                    stores.append(u(st.value))
    for n in ast.walk(fn):
        if isinstance(n, ast.Call):
            need(not any(k.arg == "out" and "thresholds" in u(k.value) for k in n.keywords),
                 f"out=thresholds in {u(n)}")
            if isinstance(n.func, ast.Attribute) and u(n.func.value) == "thresholds":
                raise Shape(f"method call on thresholds: {u(n)}")
    out.append("/-- right-hand sides of `thresholds[i] = …`, in source order -/")
    out.append(f"def thresholdStores : List String := {lean_str_list(stores)}")
    # the comparisons of the final double loop
    cmps = []
    for st in stmts_in_order(fn):
        if isinstance(st, ast.If) and isinstance(st.test, ast.Compare) and \
                u(st.test.left) == "data[t][i]":
            need(u(st.test.comparators[0]) == "thresholds[i]" and len(st.body) == 1 and
                 len(st.orelse) == 1, f"marking statement {u(st.test)}")
            cmps.append((type(st.test.ops[0]).__name__, u(st.body[0]), u(st.orelse[0])))
    out.append("/-- the marking comparisons `data[t][i] <op> thresholds[i]`: operator, then / else -/")
    out.append("def markStatements : List (String × String × String) := ["
               + ", ".join('("%s", "%s", "%s")' % c for c in cmps) + "]")
    out.append("")


def gen_numpy(out):
    import numpy
    path = os.path.join(os.path.dirname(numpy.__file__), "lib", "_function_base_impl.py")
    need(os.path.exists(path), f"numpy source {path}")
    mod = ast.parse(open(path).read())
    out.append(f"/-! NumPy {numpy.__version__}: numpy/lib/_function_base_impl.py -/")
    # the method table
    tab = [s for s in mod.body if isinstance(s, ast.Assign) and
           u(s.targets[0]) == "_QuantileMethods"]
    need(len(tab) == 1 and isinstance(tab[0].value, ast.Dict), "_QuantileMethods literal")
    lin = [v for k, v in zip(tab[0].value.keys, tab[0].value.values)
           if isinstance(k, ast.Constant) and k.value == "linear"]
    need(len(lin) == 1 and isinstance(lin[0], ast.Dict), "_QuantileMethods['linear']")
    ent = {k.value: v for k, v in zip(lin[0].keys, lin[0].values)}
    need(set(ent) == {"get_virtual_index", "fix_gamma"} and
         all(isinstance(v, ast.Lambda) for v in ent.values()), "entries of the linear method")
    gv, fg = ent["get_virtual_index"], ent["fix_gamma"]
    need([a.arg for a in gv.args.args] == ["n", "quantiles"], "get_virtual_index parameters")
    need(len(fg.args.args) == 2, "fix_gamma parameters")
    out.append("/-- `_QuantileMethods['linear']['get_virtual_index']` -/")
    out.append("def npVirtualIndex (n quantiles : Rat) : Rat := "
               + rat_expr(gv.body, {"n": "n", "quantiles": "quantiles"}))
    out.append("/-- `_QuantileMethods['linear']['fix_gamma']` -/")
    out.append("def npFixGamma (gamma : Rat) : Rat := "
               + rat_expr(fg.body, {fg.args.args[0].arg: "gamma"}))
    # the default method of the public functions
    for pub in ("quantile", "_quantile"):
        fn = top_func(mod, pub)
        names = [a.arg for a in fn.args.args]
        need("method" in names, f"{pub}: parameter method")
        d = fn.args.defaults[names.index("method") - (len(names) - len(fn.args.defaults))]
        need(isinstance(d, ast.Constant), f"{pub}: default method")
        out.append(f'def np{pub.strip("_").capitalize()}{"Inner" if pub[0] == "_" else ""}'
                   f'DefaultMethod : String := "{d.value}"')
    # Hyndman & Fan parametrisation
    fn = top_func(mod, "_compute_virtual_index")
    need([a.arg for a in fn.args.args] == ["n", "quantiles", "alpha", "beta"],
         "_compute_virtual_index parameters")
    ret = [s for s in fn.body if isinstance(s, ast.Return)]
    need(len(ret) == 1, "_compute_virtual_index return")
    out.append("/-- `_compute_virtual_index` (Hyndman & Fan's `alpha`, `beta`) -/")
    out.append("def npComputeVirtualIndex (n quantiles alpha beta : Rat) : Rat := "
               + rat_expr(ret[0].value, {k: k for k in ("n", "quantiles", "alpha", "beta")}))
    # _get_gamma
    fn = top_func(mod, "_get_gamma")
    g = assigns(fn, "gamma")
    rt = [s_ for s_ in fn.body if isinstance(s_, ast.Return)]
    need(len(g) == 2 and u(g[0].value.func) == "np.asanyarray" and
         u(g[1].value) == "method['fix_gamma'](gamma, virtual_indexes)" and
         len(rt) == 1 and u(rt[0].value.func) == "np.asanyarray" and
         u(rt[0].value.args[0]) == "gamma", "_get_gamma statements")
    out.append("/-- `_get_gamma` before `fix_gamma` -/")
    out.append("def npGamma (virtual_indexes previous_indexes : Rat) : Rat := "
               + rat_expr(g[0].value.args[0], {"virtual_indexes": "virtual_indexes",
                                               "previous_indexes": "previous_indexes"}))
    # _get_indexes
    fn = top_func(mod, "_get_indexes")
    need([a.arg for a in fn.args.args] == ["arr", "virtual_indexes", "valid_values_count"],
         "_get_indexes parameters")
    pv = assigns(fn, "previous_indexes")
    nx = assigns(fn, "next_indexes")
    need(u(pv[0].value.func) == "floor" and u(pv[0].value.args[0]) == "virtual_indexes",
         "previous_indexes = floor(virtual_indexes)")
    need(u(nx[0].value.func) == "add" and u(nx[0].value.args[0]) == "previous_indexes",
         "next_indexes = add(previous_indexes, 1)")
    out.append("/-- `_get_indexes`: the neighbouring indexes and their two clippings, in source order -/")
    out.append("def npNext (previous_indexes : Int) : Int := previous_indexes + "
               + int_const(nx[0].value.args[1]))
    ab = assigns(fn, "indexes_above_bounds")
    bl = assigns(fn, "indexes_below_bounds")
    need(len(ab) == 1 and len(bl) == 1 and ab[0].lineno < bl[0].lineno,
         "_get_indexes: above-bounds test before below-bounds test")
    env = {"virtual_indexes": "virtual_indexes", "valid_values_count": "valid_values_count"}
    out.append("def npAbove (virtual_indexes valid_values_count : Rat) : Bool := "
               + cmp_expr(ab[0].value, env))
    out.append("def npBelow (virtual_indexes : Rat) : Bool := " + cmp_expr(bl[0].value, env))
    ifs = [s for s in fn.body if isinstance(s, ast.If)]
    need(len(ifs) == 3 and u(ifs[0].test) == "indexes_above_bounds.any()" and
         u(ifs[1].test) == "indexes_below_bounds.any()", "_get_indexes: the clipping blocks")
    for blk, mask, nm in ((ifs[0], "indexes_above_bounds", "Above"),
                          (ifs[1], "indexes_below_bounds", "Below")):
        got = {}
        for st in blk.body:
            need(isinstance(st, ast.Assign) and isinstance(st.targets[0], ast.Subscript) and
                 u(st.targets[0].slice) == mask, f"_get_indexes: {u(st)}")
            got[u(st.targets[0].value)] = int_const(st.value)
        need(set(got) == {"previous_indexes", "next_indexes"}, f"_get_indexes: block {mask}")
        out.append(f"def np{nm}Prev : Int := {got['previous_indexes']}")
        out.append(f"def np{nm}Next : Int := {got['next_indexes']}")
    # the third block only concerns NaN virtual indexes of inexact arrays
    need("isnan" in u(ifs[2]), "_get_indexes: third block handles NaN")
    # _lerp
    fn = top_func(mod, "_lerp")
    need([a.arg for a in fn.args.args][:3] == ["a", "b", "t"], "_lerp parameters")
    df = assigns(fn, "diff_b_a")
    li = assigns(fn, "lerp_interpolation")
    need(len(df) == 1 and len(li) >= 1 and u(li[0].value.func) == "add", "_lerp statements")
    env = {"a": "a", "b": "b", "t": "t", "diff_b_a": "diff_b_a"}
    out.append("/-- `_lerp` -/")
    out.append("def npLerpDiff (a b : Rat) : Rat := " + rat_expr(df[0].value, env))
    out.append("def npLerpLo (a diff_b_a t : Rat) : Rat := ("
               + rat_expr(li[0].value.args[0], env) + " + " + rat_expr(li[0].value.args[1], env) + ")")
    sub = [s.value for s in fn.body if isinstance(s, ast.Expr) and isinstance(s.value, ast.Call)
           and u(s.value.func) == "subtract"]
    need(len(sub) == 1, "_lerp: one subtract(...)")
    kws = {k.arg: k.value for k in sub[0].keywords}
    need(u(kws.get("out")) == "lerp_interpolation" and "where" in kws, "_lerp: subtract(out=, where=)")
    out.append("def npLerpHi (b diff_b_a t : Rat) : Rat := ("
               + rat_expr(sub[0].args[0], env) + " - " + rat_expr(sub[0].args[1], env) + ")")
    out.append("def npLerpWhere (t : Rat) : Bool := " + cmp_expr(kws["where"], env))
    # _quantile: how the pieces are wired
    fn = top_func(mod, "_quantile")
    txt = {u(s) for s in stmts_in_order(fn) if isinstance(s, ast.Assign)}
    wiring = ["virtual_indexes = method_props['get_virtual_index'](values_count, quantiles)",
              "method_props = _QuantileMethods[method]",
              "previous_indexes, next_indexes = _get_indexes(arr, virtual_indexes, values_count)",
              "previous = arr[previous_indexes]",
              "next = arr[next_indexes]",
              "gamma = _get_gamma(virtual_indexes, previous_indexes, method_props)",
              "result = _lerp(previous, next, gamma, out=out)"]
    for w in wiring:
        need(w in txt, f"_quantile: statement `{w}`")
    out.append("/-- statements of `_quantile` found verbatim -/")
    out.append(f"def npQuantileWiring : Nat := {len(wiring)}")
    # _median
    fn = top_func(mod, "_median")
    ix = assigns(fn, "index")
    need(len(ix) == 1 and u(ix[0].value) == "part.shape[axis] // 2", "_median: index")
    odd = [s for s in fn.body if isinstance(s, ast.If) and u(s.test) == "part.shape[axis] % 2 == 1"]
    need(len(odd) == 1, "_median: parity test")
    so, se = u(odd[0].body[0].value), u(odd[0].orelse[0].value)
    need(so == "slice(index, index + 1)" and se == "slice(index - 1, index + 1)",
         f"_median: slices {so} / {se}")
    r = assigns(fn, "rout")
    need(r and u(r[0].value) == "mean(part[indexer], axis=axis, out=out)", "_median: mean of the slice")
    out.append("/-- `_median`: `index = n // 2`; odd `n`: `mean(part[index:index+1])`, even `n`: "
               "`mean(part[index-1:index+1])` -/")
    out.append("def npMedianIndex (n : Nat) : Nat := n / 2")
    out.append("def npMedianOdd (n : Nat) : Bool := decide (n % 2 = 1)")
    out.append("def npMedianSliceOdd (index : Nat) : Nat × Nat := (index, index + 1)")
    out.append("def npMedianSliceEven (index : Nat) : Nat × Nat := (index - 1, index + 1)")
    out.append("")

def lean_str_list(xs):
    return "[" + ", ".join('"%s"' % x for x in xs) + "]"


def main():
    mod = ast.parse(open(SRC).read())
    cls = find_class(mod, "EventSeries")
    out = ["import Pyunicorn.Model.Events",
           "/-! GENERATED by translate/gen_C16.py from src/pyunicorn/eventseries/event_series.py"
           " — do not edit -/",
           "namespace Pyunicorn.Generated.StructC16",
           "open Pyunicorn.Events", ""]

    # ---- count statements and boundary counts --------------------------------------
    def counts(fname, targets):
        fn = find_func(cls, fname)
        got = {t: [] for t in targets}
        bnds = {b: [] for b in BND}
        for st in stmts_in_order(fn):
            if isinstance(st, ast.Assign) and len(st.targets) == 1 and \
                    isinstance(st.targets[0], ast.Name):
                t = st.targets[0].id
                if t in got:
                    got[t].append((st.lineno, count_spec(st)))
                elif t in bnds and isinstance(st.value, ast.Call):
                    bnds[t].append((st.lineno, boundary(st)))
        return got, bnds

    def emit_spec(name, line, sp):
        out.append(f"/-- event_series.py:{line} -/")
        out.append(f"def {name} : CountSpec := ⟨.{sp[0]}, .{sp[1]}, .{sp[2]}, .{sp[3]}, {sp[4]}⟩")

    def emit_bnd(name, line, b):
        out.append(f"/-- event_series.py:{line}: filtered and measured array, index of the "
                   f"reference event -/")
        out.append(f'def {name} : String × Int := ("{b[0]}", {b[1]})')

    got, bnds = counts("event_coincidence_analysis", ["prec12", "trig12", "prec21", "trig21"])
    for t in ("prec12", "trig12", "prec21", "trig21"):
        need(len(got[t]) == 1, f"event_coincidence_analysis: one statement for {t}")
        emit_spec("eca" + t[0].upper() + t[1:], *got[t][0])
    for b in sorted(BND):
        need(len(bnds[b]) == 1, f"event_coincidence_analysis: one boundary count {b}")
        emit_bnd("eca" + b.upper(), *bnds[b][0])
    got, bnds = counts("_eca_coincidence_rate", ["coincidence12", "coincidence21"])
    for t in ("coincidence12", "coincidence21"):
        need(len(got[t]) == 3, f"_eca_coincidence_rate: three statements for {t}")
        for w, (line, sp) in zip(("Adv", "Ret", "Sym"), got[t]):
            emit_spec(f"rate{w}{t[-2:]}", line, sp)
    # boundary counts per branch, in source order: advanced n11,n21; retarded n12,n22;
    # symmetric n11,n12,n21,n22
    exp = {"n11": ("Adv", "Sym"), "n21": ("Adv", "Sym"), "n12": ("Ret", "Sym"),
           "n22": ("Ret", "Sym")}
    for b in sorted(BND):
        need(len(bnds[b]) == 2, f"_eca_coincidence_rate: two boundary counts {b}")
        for w, (line, v) in zip(exp[b], bnds[b]):
            emit_bnd(f"rate{w}{b.upper()}", line, v)
    out.append("")

    # ---- symmetrisation helpers ------------------------------------------------------
    helpers = {}
    for fn in cls.body:
        if isinstance(fn, ast.FunctionDef) and fn.name.startswith("_symmetrization_"):
            need(any(u(d) == "staticmethod" for d in fn.decorator_list), f"{fn.name} static")
            helpers[fn.name] = (fn.lineno, sym_helper(fn))
    init = find_func(cls, "__init__")
    opts = None
    for st in ast.walk(init):
        if isinstance(st, ast.Assign) and u(st.targets[0]) == "self.symmetrization_options":
            need(isinstance(st.value, ast.Dict), "symmetrization_options is a dict literal")
            opts = []
            for k, v in zip(st.value.keys, st.value.values):
                need(isinstance(k, ast.Constant) and u(v).startswith("EventSeries."),
                     f"symmetrization_options entry {u(k)}: {u(v)}")
                h = u(v)[len("EventSeries."):]
                need(h in helpers, f"helper {h}")
                opts.append((k.value, h))
    need(opts is not None, "symmetrization_options not found")
    # nothing else assigns the table
    for fn in cls.body:
        if isinstance(fn, ast.FunctionDef) and fn.name != "__init__":
            for n in ast.walk(fn):
                if isinstance(n, (ast.Assign, ast.AugAssign)):
                    tg = n.targets if isinstance(n, ast.Assign) else [n.target]
                    need(not any("symmetrization_options" in u(t) for t in tg),
                         f"{fn.name} assigns symmetrization_options")
    out.append("/-- `self.symmetrization_options`: option -> what its helper does -/")
    out.append("def symmOptions : List (String × SymHelper) := [")
    rows = []
    for k, h in opts:
        line, (e, fresh, writes) = helpers[h]
        rows.append(f'  ("{k}", ⟨.{e}, {str(fresh).lower()}, {str(writes).lower()}⟩)'
                    f"  -- {h}, event_series.py:{line}")
    out.append(",\n".join(r.split("  --")[0] for r in rows) + "]")
    out.extend("-- " + r.split("  -- ")[1] for r in rows)
    out.append("")

    # ---- event_series_analysis ---------------------------------------------------------
    fn = find_func(cls, "event_series_analysis")
    need([a.arg for a in fn.args.args] == ["self", "method", "symmetrization", "window_type"]
         and [u(d) for d in fn.args.defaults] == ["'ES'", "'directed'", "'symmetric'"],
         "event_series_analysis signature / defaults")
    top = [s for s in fn.body if isinstance(s, ast.If)]
    disp = [s for s in top if u(s.test) == "method == 'ES'"]
    need(len(disp) == 1 and len(disp[0].orelse) == 1 and isinstance(disp[0].orelse[0], ast.If)
         and u(disp[0].orelse[0].test) == "method == 'ECA'", "method dispatch")

    def branch(body, what):
        allowed, worker = {}, None
        for s in body:
            if isinstance(s, ast.If) and isinstance(s.test, ast.Compare) and \
                    isinstance(s.test.ops[0], ast.NotIn):
                need(isinstance(s.body[0], ast.Raise), f"{what}: guard raises")
                allowed[u(s.test.left)] = ast.literal_eval(s.test.comparators[0])
            if isinstance(s, ast.Assign):
                need(worker is None, f"{what}: one worker call")
                worker = (u(s.targets[0]), s.value)
        need(worker is not None, f"{what}: worker call")
        return allowed, worker
    es_allowed, (es_var, es_call) = branch(disp[0].body, "ES")
    eca_allowed, (eca_var, eca_call) = branch(disp[0].orelse[0].body, "ECA")
    need(u(es_call) == "self._ndim_event_synchronization()", f"ES worker {u(es_call)}")
    need(u(eca_call) == "self._ndim_event_coincidence_analysis(window_type=window_type)",
         f"ECA worker {u(eca_call)}")
    need(es_var == eca_var, "one variable holds the directed matrix")
    last = fn.body[-1]
    need(isinstance(last, ast.Return) and
         u(last.value) == f"self.symmetrization_options[symmetrization]({es_var})",
         f"event_series_analysis returns {u(last.value)}")
    out.append("/-- symmetrisations accepted for ES / ECA, window types accepted for ECA -/")
    out.append(f"def esSymmAllowed : List String := {lean_str_list(es_allowed['symmetrization'])}")
    out.append(f"def ecaSymmAllowed : List String := {lean_str_list(eca_allowed['symmetrization'])}")
    out.append(f"def windowAllowed : List String := {lean_str_list(eca_allowed['window_type'])}")
    out.append("")

    # ---- the two workers -----------------------------------------------------------------
    for nm, fname, pair in (("es", "_ndim_event_synchronization", "event_synchronization"),
                            ("eca", "_ndim_event_coincidence_analysis", "_eca_coincidence_rate")):
        d = ndim(find_func(cls, fname), pair)
        out.append(f"/-- `{fname}`: memoised by `@Cached.method()`? -/")
        out.append(f"def {nm}WorkerCached : Bool := {str(d['cached']).lower()}")
        out.append(f"def {nm}OuterLo (N : Int) : Int := {d['olo']}")
        out.append(f"def {nm}OuterHi (N : Int) : Int := {d['ohi']}")
        out.append(f"def {nm}InnerLo (N {d['i']} : Int) : Int := {d['ilo']}")
        out.append(f"def {nm}InnerHi (N {d['i']} : Int) : Int := {d['ihi']}")
        out.append("/-- index pairs stored per iteration (0 = outer, 1 = inner loop variable), "
                   "columns passed as first / second series -/")
        out.append(f"def {nm}Stores : List (Nat × Nat) := "
                   f"[{', '.join('(%d, %d)' % s for s in d['stores'])}]")
        out.append(f"def {nm}Cols : List Nat := [{', '.join(map(str, d['cols']))}]")
        out.append("/-- keyword arguments of the pair call -> object field / local they carry -/")
        out.append(f"def {nm}Keywords : List (String × String) := ["
                   + ", ".join('("%s", "%s")' % kv for kv in sorted(d['kw'].items())) + "]")
        out.append("")
    gen_thresholding(cls, out)
    gen_numpy(out)
    out.append("end Pyunicorn.Generated.StructC16")
    os.makedirs(os.path.dirname(OUT), exist_ok=True)
    with open(OUT, "w") as f:
        f.write("\n".join(out) + "\n")


if __name__ == "__main__":
    try:
        main()
    except Shape as e:
        # leave a file that makes the dependent theorems fail with a readable message
        os.makedirs(os.path.dirname(OUT), exist_ok=True)
        with open(OUT, "w") as f:
            f.write("import Pyunicorn.Model.Events\n/-! GENERATED by translate/gen_C16.py -/\n"
                    f"-- UNTRANSLATABLE: {e}\n"
                    "namespace Pyunicorn.Generated.StructC16\nend Pyunicorn.Generated.StructC16\n")
        print(f"gen_C16: shape changed: {e}")
        sys.exit(1)
