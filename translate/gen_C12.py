#!/usr/bin/env python3
"""Structural translator for C12: regenerates lean/Pyunicorn/Generated/StructC12.lean
from the *current* working tree on every run.

From `core/_ext/numerics.pyx` (Cython; the `cdef` block and the C types of the
signature are stripped, the rest is parsed with Python's `ast`):

  _calculate_angular_distance  -> angOuter, angInner (loop bounds), angExpr (the
      expression assigned to `expr`), angClamp (the if / elif chain on `expr`),
      angStores (the index pairs written per iteration), angParams
  _calculate_euclidean_distance -> eucOuter, eucInner, eucDim (bounds), eucTerm (the
      summand added to `expr`), eucInit, eucExponent, eucStores

From `core/geo_grid.py`:

  GeoGrid.angular_distance -> angBinding: (kernel parameter, method whose result is
      passed in that position) for the four tables; angResultFn (`arccos`)
  GeoGrid.cos_lat … sin_lon -> trigTables: (method, numpy function, sequence method),
      rad (the degrees -> radians expression), latDim / lonDim (the rows of
      `_grid["space"]` that `lat_sequence` / `lon_sequence` return)
  GeoGrid.node_number      -> nnExpr (element `i` of the vectorised expression),
      nnClamp (the masked assignments, in source order), nnQueryTables
  GeoGrid.convert_lon_coordinates -> convBound, convStep

From `core/grid.py`:

  Grid.node_number -> gridSq (summand of `np.sum(diff**2, axis=1)` for element i,
      coordinate k), gridPost (`sqrt`), gridPick (`argmin`)

From `core/geo_network.py`:

  GeoNetwork.set_node_weight_type -> weightCases: (node_weight_type literal, expression
      class) in source order + weightElse

Anything that no longer has the expected *shape* (not: the expected content) raises and
the check reports a broken tie.  Content is compared by the theorems of
`Properties/C12.lean` (section "tie to the source"), over commutative rings where the
model is algebraic, so that a semantics-preserving reordering does not break the tie.
"""
import ast
import os
import re
import sys

REPO = os.environ.get("VERIF_REPO", "/repo")
OUT = sys.argv[1]


class Shape(Exception):
    pass


def need(c, msg):
    if not c:
        raise Shape(msg)


# ---------------------------------------------------------------------------
# Cython -> Python for the two kernels
# ---------------------------------------------------------------------------

def pyx_function(src, name):
    m = re.search(r"^def %s\(" % re.escape(name), src, re.M)
    need(m, f"{name} not found in numerics.pyx")
    rest = src[m.start():]
    nxt = re.search(r"^(def |cdef |cpdef |# [a-z].* =+$)", rest[4:], re.M)
    text = rest[: 4 + nxt.start()] if nxt else rest
    lines = text.split("\n")
    out, i = [], 0
    # signature: drop C types
    sig_end = next(k for k, ln in enumerate(lines) if ln.rstrip().endswith("):"))
    sig = " ".join(ln.strip() for ln in lines[: sig_end + 1])
    inner = sig[sig.index("(") + 1: sig.rindex(")")]
    params = []
    depth, cur = 0, ""
    for ch in inner:
        if ch == "[":
            depth += 1
        if ch == "]":
            depth -= 1
        if ch == "," and depth == 0:
            params.append(cur)
            cur = ""
        else:
            cur += ch
    if cur.strip():
        params.append(cur)
    names = [p.strip().split()[-1] for p in params]
    out.append(f"def {name}({', '.join(names)}):")
    i = sig_end + 1
    while i < len(lines):
        ln = lines[i]
        if ln.strip() == "cdef:":
            ind = len(ln) - len(ln.lstrip())
            i += 1
            while i < len(lines) and (not lines[i].strip()
                                      or len(lines[i]) - len(lines[i].lstrip()) > ind):
                i += 1
            continue
        if ln.strip().startswith("cdef "):
            i += 1
            continue
        out.append(re.sub(r"<\s*\w+\s*>\s*", "", ln))      # C casts `<FIELD_t> 0.5`
        i += 1
    tree = ast.parse("\n".join(out))
    return tree.body[0], names


# ---------------------------------------------------------------------------
# expressions -> Lean
# ---------------------------------------------------------------------------

def num(c):
    v = c.value
    need(isinstance(v, (int, float)) and not isinstance(v, bool), f"constant {v!r}")
    need(float(v) == int(v), f"non-integral constant {v!r}")
    return str(int(v))


def tr(e, arrays=(), elem=None):
    """Lean text of expression `e`.  Names in `arrays` are 1-D arrays: a bare use means
    element `elem` (vectorised numpy expression), a subscript means that element."""
    if isinstance(e, ast.BinOp):
        if isinstance(e.op, ast.Pow):
            need(isinstance(e.right, ast.Constant) and e.right.value == 2, "power other than 2")
            a = tr(e.left, arrays, elem)
            return f"(({a}) * ({a}))"
        op = {ast.Add: "+", ast.Sub: "-", ast.Mult: "*", ast.Div: "/"}.get(type(e.op))
        need(op, f"operator {type(e.op).__name__}")
        return f"({tr(e.left, arrays, elem)} {op} {tr(e.right, arrays, elem)})"
    if isinstance(e, ast.UnaryOp) and isinstance(e.op, ast.USub):
        return f"(-{tr(e.operand, arrays, elem)})"
    if isinstance(e, ast.Constant):
        return num(e)
    if isinstance(e, ast.Name):
        if e.id in arrays:
            need(elem is not None, f"array {e.id} used without index")
            return f"({e.id} {elem})"
        return e.id
    if isinstance(e, ast.Subscript) and isinstance(e.value, ast.Name):
        idx = e.slice.elts if isinstance(e.slice, ast.Tuple) else [e.slice]
        need(all(isinstance(x, ast.Name) for x in idx), "non-name index")
        return "(" + " ".join([e.value.id] + [x.id for x in idx]) + ")"
    if isinstance(e, ast.Attribute) and ast.unparse(e) == "np.pi":
        return "pi"
    raise Shape(f"cannot translate {ast.unparse(e)}")


def range_bound(forn):
    need(isinstance(forn.iter, ast.Call) and ast.unparse(forn.iter.func) == "range"
         and len(forn.iter.args) == 1, f"loop over {ast.unparse(forn.iter)}")
    return forn.target.id, forn.iter.args[0]


def cmp(test, var):
    need(isinstance(test, ast.Compare) and len(test.ops) == 1
         and isinstance(test.left, ast.Name) and test.left.id == var, "clamp test shape")
    op = {ast.Gt: ">", ast.Lt: "<", ast.GtE: "≥", ast.LtE: "≤"}.get(type(test.ops[0]))
    need(op, "comparison operator")
    return f"{var} {op} {tr(test.comparators[0])}"


def if_chain(node, var):
    """`if c1: var = k1 elif c2: var = k2` -> Lean if-then-else ending in `var`"""
    need(isinstance(node, ast.If) and len(node.body) == 1 and isinstance(node.body[0], ast.Assign)
         and ast.unparse(node.body[0].targets[0]) == var, "clamp branch shape")
    then = tr(node.body[0].value)
    if not node.orelse:
        els = var
    else:
        need(len(node.orelse) == 1, "clamp else shape")
        els = if_chain(node.orelse[0], var)
    return f"if {cmp(node.test, var)} then {then} else {els}"


def stores(assign):
    need(isinstance(assign, ast.Assign) and all(isinstance(t, ast.Subscript) for t in assign.targets),
         "store shape")
    arr = {t.value.id for t in assign.targets}
    need(len(arr) == 1, "stores to different arrays")
    return arr.pop(), ["(" + ", ".join(x.id for x in t.slice.elts) + ")" for t in assign.targets], \
        assign.value


RING = "{α : Type} [Add α] [Sub α] [Mul α] [Neg α] [OfNat α 0] [OfNat α 1]"
ORD = RING + " [LT α] [DecidableLT α]"


def strlist(xs):
    return "[" + ", ".join('"' + x.replace('"', '\\"') + '"' for x in xs) + "]"


def main():
    L = ["/- GENERATED by translate/gen_C12.py from the current working tree — do not edit. -/",
         "namespace Pyunicorn.Generated.StructC12", ""]
    src = open(os.path.join(REPO, "src/pyunicorn/core/_ext/numerics.pyx")).read()

    # ---- angular kernel
    f, names = pyx_function(src, "_calculate_angular_distance")
    need(len(f.body) == 1 and isinstance(f.body[0], ast.For), "angular kernel: one outer loop")
    iv, ib = range_bound(f.body[0])
    need(len(f.body[0].body) == 1 and isinstance(f.body[0].body[0], ast.For), "angular: inner loop")
    inner = f.body[0].body[0]
    jv, jb = range_bound(inner)
    body = inner.body
    need(len(body) == 3 and isinstance(body[0], ast.Assign) and isinstance(body[1], ast.If),
         "angular kernel body: assignment, if-chain, store")
    var = ast.unparse(body[0].targets[0])
    arr, st, val = stores(body[2])
    need(ast.unparse(val) == var, "angular kernel stores the clamped variable")
    tabs = [n for n in names if n not in (arr, "N")]
    L += [f"/-- parameters of `_calculate_angular_distance`, in order -/",
          f"def angParams : List String := {strlist(names)}",
          f"/-- `for {iv} in range({ast.unparse(ib)})` -/",
          f"def angOuter (N : Nat) : Nat := {tr(ib)}",
          f"/-- `for {jv} in range({ast.unparse(jb)})` -/",
          f"def angInner ({iv} : Nat) : Nat := {tr(jb)}",
          f"/-- `{var} = {ast.unparse(body[0].value)}` -/",
          f"def angExpr {RING} ({' '.join(tabs)} : Nat → α) ({iv} {jv} : Nat) : α :=",
          f"  {tr(body[0].value)}",
          f"/-- the if / elif chain on `{var}` -/",
          f"def angClamp {ORD} ({var} : α) : α :=",
          f"  {if_chain(body[1], var)}",
          f"/-- `{ast.unparse(body[2])}` -/",
          f"def angStores ({iv} {jv} : Nat) : List (Nat × Nat) := [{', '.join(st)}]",
          f"def angStoreArray : String := \"{arr}\"", ""]

    # ---- Euclidean kernel
    f, names = pyx_function(src, "_calculate_euclidean_distance")
    need(len(f.body) == 1 and isinstance(f.body[0], ast.For), "euclid kernel: one outer loop")
    iv, ib = range_bound(f.body[0])
    inner = f.body[0].body
    need(len(inner) == 1 and isinstance(inner[0], ast.For), "euclid: inner loop")
    jv, jb = range_bound(inner[0])
    body = inner[0].body
    need(len(body) == 3 and isinstance(body[0], ast.Assign) and isinstance(body[1], ast.For),
         "euclid kernel body: init, k-loop, store")
    var = ast.unparse(body[0].targets[0])
    kv, kb = range_bound(body[1])
    need(len(body[1].body) == 1 and isinstance(body[1].body[0], ast.AugAssign)
         and isinstance(body[1].body[0].op, ast.Add)
         and ast.unparse(body[1].body[0].target) == var, "euclid: `expr += term`")
    term = body[1].body[0].value
    arr, st, val = stores(body[2])
    need(isinstance(val, ast.BinOp) and isinstance(val.op, ast.Pow) and ast.unparse(val.left) == var
         and isinstance(val.right, ast.Constant), "euclid: stores `expr ** c`")
    from fractions import Fraction
    ex = Fraction(val.right.value)
    L += [f"def eucParams : List String := {strlist(names)}",
          f"/-- `for {iv} in range({ast.unparse(ib)})` -/",
          f"def eucOuter ({ast.unparse(ib)} : Nat) : Nat := {tr(ib)}",
          f"/-- `for {jv} in range({ast.unparse(jb)})` -/",
          f"def eucInner ({iv} : Nat) : Nat := {tr(jb)}",
          f"/-- `for {kv} in range({ast.unparse(kb)})` -/",
          f"def eucDim ({ast.unparse(kb)} : Nat) : Nat := {tr(kb)}",
          f"/-- `{var} = {ast.unparse(body[0].value)}` -/",
          f"def eucInit {RING} : α := {tr(body[0].value)}",
          f"/-- `{var} += {ast.unparse(term)}` -/",
          f"def eucTerm {RING} (x : Nat → Nat → α) ({kv} {iv} {jv} : Nat) : α :=",
          f"  {tr(term)}",
          f"/-- `{ast.unparse(body[2])}`: the exponent -/",
          f"def eucExponent : Rat := ({ex.numerator} : Rat) / {ex.denominator}",
          f"def eucStores ({iv} {jv} : Nat) : List (Nat × Nat) := [{', '.join(st)}]", ""]

    # ---- geo_grid.py
    tree = ast.parse(open(os.path.join(REPO, "src/pyunicorn/core/geo_grid.py")).read())
    cls = [n for n in tree.body if isinstance(n, ast.ClassDef) and n.name == "GeoGrid"][0]
    meth = {n.name: n for n in cls.body if isinstance(n, ast.FunctionDef)}

    def stmts(fn):
        return [s for s in fn.body
                if not (isinstance(s, ast.Expr) and isinstance(s.value, ast.Constant))]

    # angular_distance: which method's result goes to which kernel parameter
    ad = meth["angular_distance"]
    call = [n for n in ast.walk(ad) if isinstance(n, ast.Call)
            and ast.unparse(n.func) == "_calculate_angular_distance"]
    need(len(call) == 1, "angular_distance: one kernel call")
    binding = []
    kparams = pyx_function(src, "_calculate_angular_distance")[1]
    for p, a in zip(kparams, call[0].args):
        inner_calls = [n for n in ast.walk(a) if isinstance(n, ast.Call)
                       and isinstance(n.func, ast.Attribute) and ast.unparse(n.func.value) == "self"]
        if inner_calls:
            binding.append((p, inner_calls[0].func.attr))
    ret = [s for s in stmts(ad) if isinstance(s, ast.Return)]
    need(len(ret) == 1 and isinstance(ret[0].value, ast.Call) and len(ret[0].value.args) == 1,
         "angular_distance: return f(matrix)")
    need(ast.unparse(ret[0].value.args[0]) == ast.unparse(call[0].args[4]),
         "angular_distance returns a function of the matrix the kernel filled")
    L += ["/-- (kernel parameter, `self.<method>()` passed in that position) -/",
          "def angBinding : List (String × String) := ["
          + ", ".join(f'("{p}", "{m}")' for p, m in binding) + "]",
          f"def angResultFn : String := \"{ast.unparse(ret[0].value.func)}\"", ""]

    # the four tables
    tables, rads = [], set()
    for nm in ("cos_lat", "sin_lat", "cos_lon", "sin_lon"):
        s = stmts(meth[nm])
        need(len(s) == 1 and isinstance(s[0], ast.Return) and isinstance(s[0].value, ast.Call)
             and len(s[0].value.args) == 1, f"{nm}: return f(arg)")
        fn = ast.unparse(s[0].value.func)
        arg = s[0].value.args[0]
        seqs = [n for n in ast.walk(arg) if isinstance(n, ast.Call)
                and isinstance(n.func, ast.Attribute) and ast.unparse(n.func.value) == "self"]
        need(len(seqs) == 1, f"{nm}: one sequence")
        seq = seqs[0].func.attr

        class R(ast.NodeTransformer):
            def visit_Call(self, n):
                return ast.Name(id="x") if n is seqs[0] else n
        rads.add(tr(R().visit(arg)))
        tables.append((nm, fn, seq))
    need(len(rads) == 1, "the four tables use the same degrees -> radians expression")
    dims = {}
    for nm in ("lat_sequence", "lon_sequence"):
        s = stmts(meth[nm])
        need(len(s) == 1 and isinstance(s[0], ast.Return)
             and ast.unparse(s[0].value.func) == "self.sequence"
             and isinstance(s[0].value.args[0], ast.Constant), f"{nm}: return self.sequence(k)")
        dims[nm] = int(s[0].value.args[0].value)
    L += ["/-- (method, numpy function applied, coordinate sequence it is applied to) -/",
          "def trigTables : List (String × String × String) := ["
          + ", ".join(f'("{a}", "{b}", "{c}")' for a, b, c in tables) + "]",
          "/-- degrees -> radians as written in `cos_lat` … `sin_lon` -/",
          "def rad {α : Type} [Mul α] [Div α] [OfNat α 180] (x pi : α) : α := " + rads.pop(),
          f"def latDim : Nat := {dims['lat_sequence']}",
          f"def lonDim : Nat := {dims['lon_sequence']}", ""]

    # node_number
    nn = stmts(meth["node_number"])
    asg = {ast.unparse(s.targets[0]): s.value for s in nn if isinstance(s, ast.Assign)
           and isinstance(s.targets[0], ast.Name)}
    arrays = [k for k, v in asg.items() if isinstance(v, ast.Call)
              and ast.unparse(v.func).startswith("self.")]
    for k in arrays:
        need(asg[k].func.attr == k, f"node_number: {k} = self.{asg[k].func.attr}()")
    scal = [k for k in asg if k.endswith("_v")]
    qt = []
    for k in scal:
        v = asg[k]
        need(isinstance(v, ast.Call) and len(v.args) == 1, f"node_number: {k} = f(arg)")
        nm = [n.id for n in ast.walk(v.args[0]) if isinstance(n, ast.Name) and n.id != "np"]
        need(len(nm) == 1, f"node_number: {k} depends on one argument")

        class R2(ast.NodeTransformer):
            def visit_Name(self, n):
                return ast.Name(id="x") if n.id == nm[0] else n
        qt.append((k, ast.unparse(v.func), nm[0], tr(R2().visit(v.args[0]))))
    need("expr" in asg, "node_number: expr = …")
    masks = [s for s in nn if isinstance(s, ast.Assign) and isinstance(s.targets[0], ast.Subscript)
             and ast.unparse(s.targets[0].value) == "expr"]
    clampL = ["  let e0 := expr"]
    for k, s in enumerate(masks):
        c = cmp(s.targets[0].slice, "expr").replace("expr", f"e{k}")
        clampL.append(f"  let e{k + 1} := if {c} then {tr(s.value)} else e{k}")
    clampL.append(f"  e{len(masks)}")
    need(ast.unparse(asg.get("angdist")) == "np.arccos(expr)"
         and ast.unparse(asg.get("n_node")) == "angdist.argmin()", "node_number: arccos, argmin")
    L += ["/-- element `i` of the vectorised expression of `GeoGrid.node_number` -/",
          f"def nnExpr {RING} ({' '.join(arrays)} : Nat → α) ({' '.join(scal)} : α) (i : Nat) : α :=",
          "  " + tr(asg["expr"], arrays, "i"),
          "/-- the masked assignments `expr[cond] = value`, in source order -/",
          f"def nnClamp {ORD} (expr : α) : α :=", *clampL,
          "/-- (scalar, numpy function, argument it is computed from, radians expression) -/",
          "def nnQueryTables : List (String × String × String × String) := ["
          + ", ".join(f'("{a}", "{b}", "{c}", "{d}")' for a, b, c, d in qt) + "]", ""]

    # convert_lon_coordinates
    cv = stmts(meth["convert_lon_coordinates"])
    loop = [s for s in cv if isinstance(s, ast.For)]
    need(len(loop) == 1 and len(loop[0].body) == 1 and isinstance(loop[0].body[0], ast.If),
         "convert_lon_coordinates: one loop with one if")
    iv, ib = range_bound(loop[0])
    iff = loop[0].body[0]
    need(len(iff.body) == 1 and len(iff.orelse) == 1, "convert_lon_coordinates: if / else")
    t = iff.test
    need(isinstance(t, ast.Compare) and len(t.ops) == 1, "convert_lon: test")
    op = {ast.Gt: ">", ast.Lt: "<", ast.GtE: "≥", ast.LtE: "≤"}[type(t.ops[0])]
    arrs = ["lon_seq"]
    L += [f"/-- `for {iv} in range({ast.unparse(ib)})` -/",
          "def convBound (N : Nat) : Nat := " + ("N" if ast.unparse(ib) == "self.N" else tr(ib)),
          "/-- loop body of `convert_lon_coordinates` for the element `l = lon_seq[i]` -/",
          "def convStep {α : Type} [Sub α] [LT α] [DecidableLT α] [OfNat α 180] [OfNat α 360] "
          "(lon_seq : Nat → α) (i : Nat) : α :=",
          f"  if {tr(t.left, arrs)} {op} {tr(t.comparators[0])} then {tr(iff.body[0].value, arrs)} "
          f"else {tr(iff.orelse[0].value, arrs)}", ""]

    # ---- grid.py: Grid.node_number
    tree = ast.parse(open(os.path.join(REPO, "src/pyunicorn/core/grid.py")).read())
    cls = [n for n in tree.body if isinstance(n, ast.ClassDef) and n.name == "Grid"][0]
    gm = {n.name: n for n in cls.body if isinstance(n, ast.FunctionDef)}
    asg = {ast.unparse(s.targets[0]): s.value for s in stmts(gm["node_number"])
           if isinstance(s, ast.Assign)}
    need(ast.unparse(asg.get("diff")) == "self._grid['space'].T - x", "Grid.node_number: diff")
    d = asg.get("dist")
    need(isinstance(d, ast.Call) and len(d.args) == 1 and isinstance(d.args[0], ast.Call)
         and ast.unparse(d.args[0].func) == "np.sum"
         and [ast.unparse(k.value) for k in d.args[0].keywords if k.arg == "axis"] == ["1"],
         "Grid.node_number: dist = f(np.sum(g(diff), axis=1))")
    L += ["/-- summand of `np.sum(diff**2, axis=1)` for node `i`, coordinate `k`, with "
          "`diff[i, k] = space[k, i] - x[k]` -/",
          f"def gridSq {RING} (space : Nat → Nat → α) (x : Nat → α) (k i : Nat) : α :=",
          "  " + tr(d.args[0].args[0], (), None).replace("diff", "(space k i - x k)"),
          f"def gridPost : String := \"{ast.unparse(d.func)}\"",
          f"def gridPick : String := \"{ast.unparse(asg.get('n_node'))}\"", ""]

    # ---- geo_network.py: set_node_weight_type
    tree = ast.parse(open(os.path.join(REPO, "src/pyunicorn/core/geo_network.py")).read())
    cls = [n for n in tree.body if isinstance(n, ast.ClassDef) and n.name == "GeoNetwork"][0]
    sm = {n.name: n for n in cls.body if isinstance(n, ast.FunctionDef)}
    chain = [s for s in stmts(sm["set_node_weight_type"]) if isinstance(s, ast.If)
             and "node_weight_type ==" in ast.unparse(s.test)]
    need(len(chain) == 1, "set_node_weight_type: one if-chain on node_weight_type")
    cases, node = [], chain[0]
    while True:
        need(len(node.body) == 1 and ast.unparse(node.body[0].targets[0]) == "self.node_weights",
             "set_node_weight_type: branch assigns self.node_weights")
        need(isinstance(node.test, ast.Compare) and isinstance(node.test.comparators[0], ast.Constant),
             "set_node_weight_type: test against a literal")
        cases.append((node.test.comparators[0].value, ast.unparse(node.body[0].value)))
        if len(node.orelse) == 1 and isinstance(node.orelse[0], ast.If):
            node = node.orelse[0]
        else:
            need(len(node.orelse) == 1, "set_node_weight_type: else branch")
            els = ast.unparse(node.orelse[0].value)
            break
    L += ["/-- (`node_weight_type` literal, expression assigned to `self.node_weights`) -/",
          "def weightCases : List (String × String) := ["
          + ", ".join(f'("{a}", "{b}")' for a, b in cases) + "]",
          f"def weightElse : String := \"{els}\"", ""]

    # ---- round 3: geographical_distribution (area-weighted histogram)
    gd = sm["geographical_distribution"]
    gasg = {}
    for st in ast.walk(gd):
        if isinstance(st, ast.Assign) and len(st.targets) == 1 and isinstance(st.targets[0], ast.Name):
            gasg[st.targets[0].id] = ast.unparse(st.value)
    for nm in ("cos_lat", "norm", "scaling", "symbolic", "range_min", "range_max"):
        need(nm in gasg, f"geographical_distribution: assignment to {nm}")
    aug = sorted([st for st in ast.walk(gd) if isinstance(st, ast.AugAssign)],
                 key=lambda st: st.lineno)
    need(len(aug) == 2, "geographical_distribution: two augmented assignments (hist += ..., hist /= norm)")
    loops = [st for st in ast.walk(gd) if isinstance(st, ast.For)]
    need(len(loops) == 1 and ast.unparse(loops[0].iter) == "range(len(sequence))",
         "geographical_distribution: one loop over range(len(sequence))")
    L += ["/-- `geographical_distribution`: the expressions assigned to its locals, and its two "
          "augmented assignments (statement, operator) in source order -/",
          "def geoDistLocals : List (String × String) := ["
          + ", ".join(f'("{k}", "{gasg[k]}")'.replace("'", "\\\"").replace('\\"int\\"', "int")
                      for k in ("cos_lat", "norm", "range_min", "range_max", "scaling", "symbolic"))
          + "]",
          "def geoDistUpdates : List (String × String) := ["
          + ", ".join(f'("{ast.unparse(a.target)}", "{type(a.op).__name__} {ast.unparse(a.value)}")'
                      for a in aug) + "]", ""]

    # ---- round 3: every distance matrix of the grid that a method edits in place is a copy
    edits = []
    for fn_path, cname in (("src/pyunicorn/core/geo_network.py", "GeoNetwork"),
                           ("src/pyunicorn/core/spatial_network.py", "SpatialNetwork"),
                           ("src/pyunicorn/core/grid.py", "Grid"),
                           ("src/pyunicorn/core/geo_grid.py", "GeoGrid")):
        t2 = ast.parse(open(os.path.join(REPO, fn_path)).read())
        c2 = [n for n in t2.body if isinstance(n, ast.ClassDef) and n.name == cname][0]
        for f in [n for n in c2.body if isinstance(n, ast.FunctionDef)]:
            src_of = {}
            for st in ast.walk(f):
                if isinstance(st, ast.Assign) and len(st.targets) == 1 \
                        and isinstance(st.targets[0], ast.Name):
                    ex = ast.unparse(st.value)
                    if "distance()" in ex and not isinstance(st.value, ast.BinOp):
                        v = st.value
                        fresh = isinstance(v, ast.Call) and (
                            (isinstance(v.func, ast.Attribute) and v.func.attr == "copy")
                            or ast.unparse(v.func) in ("np.array", "np.copy"))
                        src_of.setdefault(st.targets[0].id, (ex, fresh))
            for st in ast.walk(f):
                tgt = None
                if isinstance(st, ast.Assign) and isinstance(st.targets[0], ast.Subscript):
                    tgt = st.targets[0].value
                elif isinstance(st, ast.AugAssign):
                    tgt = st.target.value if isinstance(st.target, ast.Subscript) else st.target
                if isinstance(tgt, ast.Name) and tgt.id in src_of:
                    e = (f"{cname}.{f.name}",) + src_of[tgt.id]
                    if e not in edits:
                        edits.append(e)
    # ---- round 4: the grid as an object — `Grid.__init__`, `Grid.euclidean_distance` (argument
    # wiring of the kernel call), `distance` of both classes, `GeoGrid.__init__`,
    # `GeoGrid.coord_sequence_from_rect_grid`
    def lstr(x):
        return '"' + x.replace("\\", "\\\\").replace('"', '\\"') + '"'

    gtree = ast.parse(open(os.path.join(REPO, "src/pyunicorn/core/grid.py")).read())
    gcls = [n for n in gtree.body if isinstance(n, ast.ClassDef) and n.name == "Grid"][0]
    gmeth = {n.name: n for n in gcls.body if isinstance(n, ast.FunctionDef)}
    init = gmeth["__init__"]
    space_arg = [a.arg for a in init.args.args][2]
    iasg = {ast.unparse(st.targets[0]): st.value for st in ast.walk(init)
            if isinstance(st, ast.Assign) and len(st.targets) == 1}
    need("self.N" in iasg and "self._grid_size" in iasg and "self._grid" in iasg,
         "Grid.__init__: assignments to self.N, self._grid_size, self._grid")

    def dict_entry(d, key, what):
        need(isinstance(d, ast.Dict), f"{what}: dict literal")
        for k, v in zip(d.keys, d.values):
            if isinstance(k, ast.Constant) and k.value == key:
                return v
        raise Shape(f"{what}: no key {key!r}")

    def shape_expr(e, arrays, selfN=None):
        """a size expression over the shape of the coordinate array: `A.shape[k]`, `A.ndim`,
        `len(A)`, `self.N`, integer constants, + - *"""
        if isinstance(e, ast.Subscript) and isinstance(e.value, ast.Attribute) \
                and e.value.attr == "shape" and ast.unparse(e.value.value) in arrays \
                and isinstance(e.slice, ast.Constant) and e.slice.value in (0, 1):
            return f"shape{e.slice.value}"
        if isinstance(e, ast.Attribute) and e.attr == "ndim" and ast.unparse(e.value) in arrays:
            return "ndim"
        if isinstance(e, ast.Call) and ast.unparse(e.func) == "len" and len(e.args) == 1 \
                and ast.unparse(e.args[0]) in arrays:
            return "shape0"
        if isinstance(e, ast.Constant) and isinstance(e.value, int) and not isinstance(e.value, bool) \
                and e.value >= 0:
            return str(e.value)
        if isinstance(e, ast.Attribute) and ast.unparse(e) == "self.N" and selfN is not None:
            return selfN
        if isinstance(e, ast.BinOp) and type(e.op) in (ast.Add, ast.Sub, ast.Mult):
            op = {ast.Add: "+", ast.Sub: "-", ast.Mult: "*"}[type(e.op)]
            return f"({shape_expr(e.left, arrays, selfN)} {op} {shape_expr(e.right, arrays, selfN)})"
        raise Shape(f"size expression {ast.unparse(e)}")

    nexpr = iasg["self.N"]
    if ast.unparse(nexpr) in ("self._grid_size['space']", 'self._grid_size["space"]'):
        nexpr = dict_entry(iasg["self._grid_size"], "space", "Grid.__init__: self._grid_size")
    selfN = shape_expr(nexpr, [space_arg])
    stored = ast.unparse(dict_entry(iasg["self._grid"], "space", "Grid.__init__: self._grid"))

    ed = gmeth["euclidean_distance"]
    easg = {st.targets[0].id: st.value for st in stmts(ed)
            if isinstance(st, ast.Assign) and isinstance(st.targets[0], ast.Name)}
    ecall = [n for n in ast.walk(ed) if isinstance(n, ast.Call)
             and ast.unparse(n.func) == "_calculate_euclidean_distance"]
    need(len(ecall) == 1 and len(ecall[0].args) == 4 and not ecall[0].keywords
         and all(isinstance(a, ast.Name) for a in ecall[0].args),
         "euclidean_distance: one kernel call with four positional names")
    cargs = [a.id for a in ecall[0].args]
    kpar = pyx_function(src, "_calculate_euclidean_distance")[1]
    bind = dict(zip(kpar, cargs))
    need(set(bind) >= {"x", "distance", "N_dim", "N_nodes"}, "euclid kernel parameter names")
    for nm_ in (bind["x"], bind["distance"], bind["N_dim"], bind["N_nodes"]):
        need(nm_ in easg, f"euclidean_distance: local {nm_}")
    eret = [st for st in stmts(ed) if isinstance(st, ast.Return)]
    need(len(eret) == 1, "euclidean_distance: one return")
    seqname = bind["x"]
    L += ["/-- round 4 — `Grid.euclidean_distance`: the value passed as the kernel's `N_dim`, as a "
          "function of the shape `(shape0, shape1)` / `ndim` of the coordinate array -/",
          "def eucNDim (shape0 shape1 ndim : Nat) : Nat := "
          + shape_expr(easg[bind["N_dim"]], [seqname], selfN),
          "/-- … and as the kernel's `N_nodes` (`self.N` resolved through `Grid.__init__`) -/",
          "def eucNNodes (shape0 shape1 ndim : Nat) : Nat := "
          + shape_expr(easg[bind["N_nodes"]], [seqname], selfN),
          "/-- `self.N` as `Grid.__init__` sets it -/",
          f"def gridN (shape0 shape1 ndim : Nat) : Nat := {selfN}",
          "/-- (kernel parameter, local passed in that position, expression the local holds) -/",
          "def eucBinding : List (String × String × String) := ["
          + ", ".join(f"({lstr(k)}, {lstr(bind[k])}, {lstr(ast.unparse(easg[bind[k]]))})"
                      for k in ("x", "distance")) + "]",
          f"def eucReturn : String := {lstr(ast.unparse(eret[0].value))}",
          "/-- what `Grid.__init__` stores as `_grid[\"space\"]` -/",
          f"def gridSpaceStored : String := {lstr(stored)}", ""]

    gg_tree = ast.parse(open(os.path.join(REPO, "src/pyunicorn/core/geo_grid.py")).read())
    ggcls = [n for n in gg_tree.body if isinstance(n, ast.ClassDef) and n.name == "GeoGrid"][0]
    ggm = {n.name: n for n in ggcls.body if isinstance(n, ast.FunctionDef)}
    dist_t = []
    for cname, mm in (("Grid", gmeth), ("GeoGrid", ggm)):
        ds = stmts(mm["distance"])
        need(len(ds) == 1 and isinstance(ds[0], ast.Return), f"{cname}.distance: return …")
        dist_t.append((cname, ast.unparse(ds[0].value)))
    ginit = [n for n in ast.walk(ggm["__init__"]) if isinstance(n, ast.Call)
             and ast.unparse(n.func) == "Grid.__init__"]
    need(len(ginit) == 1 and len(ginit[0].args) >= 3, "GeoGrid.__init__ calls Grid.__init__")
    crg = stmts(ggm["coord_sequence_from_rect_grid"])
    need(len(crg) == 2 and isinstance(crg[0], ast.Assign) and isinstance(crg[1], ast.Return),
         "GeoGrid.coord_sequence_from_rect_grid: assignment, return")
    L += ["/-- (class, what its `distance()` returns) -/",
          "def distanceTargets : List (String × String) := ["
          + ", ".join(f"({lstr(a)}, {lstr(b)})" for a, b in dist_t) + "]",
          "/-- the coordinate array `GeoGrid.__init__` hands to `Grid.__init__` -/",
          f"def geoInitSpace : String := {lstr(ast.unparse(ginit[0].args[2]))}",
          "/-- `GeoGrid.coord_sequence_from_rect_grid`: (assigned expression, returned expression) -/",
          f"def geoRect : String × String := ({lstr(ast.unparse(crg[0].value))}, "
          f"{lstr(ast.unparse(crg[1].value))})", ""]

    # ---- round 4: connectivity weighted distance and total link distance (geo_network.py)
    cw = sm["_calculate_general_connectivity_weighted_distance"]
    casg = {st.targets[0].id: ast.unparse(st.value) for st in ast.walk(cw)
            if isinstance(st, ast.Assign) and len(st.targets) == 1
            and isinstance(st.targets[0], ast.Name)}
    cloops = [st for st in ast.walk(cw) if isinstance(st, ast.For)]
    need(len(cloops) == 1 and len(cloops[0].body) == 1 and isinstance(cloops[0].body[0], ast.Assign),
         "_calculate_general_connectivity_weighted_distance: one loop with one store")
    caug = [st for st in ast.walk(cw) if isinstance(st, ast.AugAssign)]
    need(len(caug) == 1, "_calculate_general_connectivity_weighted_distance: one augmented assignment")
    cret = [st for st in stmts(cw) if isinstance(st, ast.Return)]
    need(len(cret) == 1, "_calculate_general_connectivity_weighted_distance: one return")
    wr = []
    for nm_ in ("connectivity_weighted_distance", "inconnectivity_weighted_distance",
                "outconnectivity_weighted_distance"):
        f_ = sm[nm_]
        la = {st.targets[0].id: ast.unparse(st.value) for st in ast.walk(f_)
              if isinstance(st, ast.Assign) and isinstance(st.targets[0], ast.Name)}
        c_ = [n for n in ast.walk(f_) if isinstance(n, ast.Call) and ast.unparse(n.func)
              == "self._calculate_general_connectivity_weighted_distance"]
        need(len(c_) == 1 and len(c_[0].args) == 2 and all(isinstance(a, ast.Name) for a in c_[0].args),
             f"{nm_}: one call of the general routine with two locals")
        wr.append((nm_, la.get(c_[0].args[0].id, "?"), la.get(c_[0].args[1].id, "?")))
    tl = []
    for nm_ in ("total_link_distance", "intotal_link_distance", "outtotal_link_distance"):
        f_ = sm[nm_]
        la = {st.targets[0].id: ast.unparse(st.value) for st in ast.walk(f_)
              if isinstance(st, ast.Assign) and isinstance(st.targets[0], ast.Name)}
        r_ = [st for st in stmts(f_) if isinstance(st, ast.Return)]
        need(len(r_) == 1 and isinstance(r_[0].value, ast.BinOp) and isinstance(r_[0].value.op, ast.Mult)
             and isinstance(r_[0].value.left, ast.Name) and isinstance(r_[0].value.right, ast.Name),
             f"{nm_}: returns a product of two locals")
        tl.append((nm_, la.get(r_[0].value.left.id, "?"), la.get(r_[0].value.right.id, "?")))
    L += ["/-- `_calculate_general_connectivity_weighted_distance`: locals, the loop (range, target, "
          "value), the normalisation (target, operator and value), the result -/",
          "def cwdLocals : List (String × String) := ["
          + ", ".join(f"({lstr(k)}, {lstr(casg.get(k, '?'))})" for k in ("D", "cos_lat", "norm")) + "]",
          f"def cwdLoop : String × String × String := ({lstr(ast.unparse(cloops[0].iter))}, "
          f"{lstr(ast.unparse(cloops[0].body[0].targets[0]))}, {lstr(ast.unparse(cloops[0].body[0].value))})",
          f"def cwdNormalise : String × String := ({lstr(ast.unparse(caug[0].target))}, "
          f"{lstr(type(caug[0].op).__name__ + ' ' + ast.unparse(caug[0].value))})",
          f"def cwdReturn : String := {lstr(ast.unparse(cret[0].value))}",
          "/-- (wrapper, adjacency passed, degree passed) -/",
          "def cwdWrappers : List (String × String × String) := ["
          + ", ".join(f"({lstr(a)}, {lstr(b)}, {lstr(c)})" for a, b, c in wr) + "]",
          "/-- (method, left factor, right factor) of the returned product -/",
          "def tldProducts : List (String × String × String) := ["
          + ", ".join(f"({lstr(a)}, {lstr(b)}, {lstr(c)})" for a, b, c in tl) + "]", ""]

    # ---- round 5e: GeoGrid.region_indices (reshape, conditional longitude remapping, the
    # (lon, lat) pairing of the nodes, delegation to matplotlib)
    ri = stmts(ggm["region_indices"])
    need(len(ri) == 4 and isinstance(ri[0], ast.Assign) and isinstance(ri[1], ast.If)
         and isinstance(ri[2], ast.Assign) and isinstance(ri[3], ast.Return),
         "region_indices: assignment, if, assignment, return")
    rname = ast.unparse(ri[0].targets[0])
    rv = ri[0].value
    need(isinstance(rv, ast.Call) and isinstance(rv.func, ast.Attribute) and rv.func.attr == "reshape"
         and ast.unparse(rv.func.value) in ("np.array(region)", "np.array(region, copy=True)",
                                            "np.copy(region)")
         and len(rv.args) == 2, "region_indices: np.array(region).reshape(rows, cols)")
    rt = ri[1].test
    need(isinstance(rt, ast.Compare) and len(rt.ops) == 1 and isinstance(rt.left, ast.Call)
         and isinstance(rt.left.func, ast.Attribute) and rt.left.func.attr in ("min", "max")
         and isinstance(rt.left.func.value, ast.Subscript)
         and ast.unparse(rt.left.func.value.value) in ("self._grid['space']", 'self._grid["space"]')
         and isinstance(rt.left.func.value.slice, ast.Constant) and not ri[1].orelse,
         "region_indices: if self._grid['space'][k].min() <op> c:")
    rop = {ast.Gt: ">", ast.Lt: "<", ast.GtE: "≥", ast.LtE: "≤"}.get(type(rt.ops[0]))
    need(rop, "region_indices: comparison operator of the guard")
    need(len(ri[1].body) == 1 and isinstance(ri[1].body[0], ast.Assign)
         and isinstance(ri[1].body[0].targets[0], ast.Subscript), "region_indices: one masked store")
    ms = ri[1].body[0]
    tg = ms.targets[0]
    need(ast.unparse(tg.value) == rname and isinstance(tg.slice, ast.Tuple) and len(tg.slice.elts) == 2
         and isinstance(tg.slice.elts[1], ast.Constant) and isinstance(tg.slice.elts[0], ast.Compare)
         and len(tg.slice.elts[0].ops) == 1,
         "region_indices: remapped_region[<mask>, col] = …")
    mask = tg.slice.elts[0]
    col = tg.slice.elts[1].value
    colref = f"{rname}[:, {col}]"
    need(ast.unparse(mask.left) == colref, "region_indices: the mask tests the column it stores to")
    mop = {ast.Gt: ">", ast.Lt: "<", ast.GtE: "≥", ast.LtE: "≤"}.get(type(mask.ops[0]))
    need(mop, "region_indices: comparison operator of the mask")
    sel = ast.unparse(tg)

    class R3(ast.NodeTransformer):
        def visit_Subscript(self, n):
            return ast.Name(id="x") if ast.unparse(n) == sel else self.generic_visit(n)
    mval = tr(R3().visit(ms.value))
    cs = ri[2].value
    need(isinstance(cs, ast.Call) and ast.unparse(cs.func) == "np.column_stack" and len(cs.args) == 1
         and isinstance(cs.args[0], ast.Tuple), "region_indices: np.column_stack((…, …))")
    cols = []
    for e_ in cs.args[0].elts:
        need(isinstance(e_, ast.Subscript) and isinstance(e_.slice, ast.Constant)
             and ast.unparse(e_.value) in ("self._grid['space']", 'self._grid["space"]'),
             "region_indices: column_stack of rows of self._grid['space']")
        cols.append(int(e_.slice.value))
    pname = ast.unparse(ri[2].targets[0])
    L += ["/-- round 5e — `GeoGrid.region_indices`: the shape the region is brought into -/",
          f"def regReshape : String × String := ({lstr(ast.unparse(rv.func.value))}, "
          f"{lstr(', '.join(ast.unparse(a) for a in rv.args))})",
          "/-- the guard of the remapping: (row of `_grid[\"space\"]`, reduction) and its test -/",
          f"def regGuardRow : Nat × String := ({int(rt.left.func.value.slice.value)}, "
          f"{lstr(rt.left.func.attr)})",
          "def regGuard {α : Type} [LE α] [LT α] [DecidableLE α] [DecidableLT α] [OfNat α 0] "
          f"(m : α) : Bool := decide (m {rop} {tr(rt.comparators[0])})",
          "/-- the masked store: column, mask on one entry `x` of that column, value stored -/",
          f"def regRemapCol : Nat := {int(col)}",
          "def regRemap {α : Type} [Add α] [Sub α] [LE α] [LT α] [DecidableLE α] [DecidableLT α] "
          "[OfNat α 0] [OfNat α 360] (x : α) : α :=",
          f"  if x {mop} {tr(mask.comparators[0])} then {mval} else x",
          "/-- the rows of `_grid[\"space\"]` stacked as the columns of the tested points -/",
          f"def regPointRows : List Nat := [{', '.join(str(c) for c in cols)}]",
          f"def regReturn : String := {lstr(ast.unparse(ri[3].value).replace(rname, 'R').replace(pname, 'P'))}",
          ""]

    L += ["/-- (method, expression, is the outermost call `.copy()` / `np.array` / `np.copy`) for every "
          "local that holds a distance matrix of the grid and is edited in place (subscript store / "
          "augmented assignment) in that method -/",
          "def distEdits : List (String × String × Bool) := ["
          + ", ".join(f'("{a}", "{b}", {"true" if c else "false"})' for a, b, c in edits) + "]", "",
          "end Pyunicorn.Generated.StructC12", ""]
    with open(OUT, "w") as fh:
        fh.write("\n".join(L))


if __name__ == "__main__":
    try:
        main()
    except Shape as e:
        print(f"gen_C12: the source no longer has the modelled shape: {e}", file=sys.stderr)
        sys.exit(1)
