#!/usr/bin/env python3
"""Structural translator for C13: regenerates lean/Pyunicorn/Generated/StructC13.lean from the
*current* working tree on every run.

What it reads (Python `ast` of `climate/climate_data.py` and `core/data.py`):

  ClimateData.__init__          -> initCounter: the value `_mut_window` is given *before*
                                   `Data.__init__` runs (the base constructor already
                                   dispatches to the overridden `set_window`)
  ClimateData.__cache_state__   -> cacheKeyHasCounter / cacheKeyArity: `_mut_window` is a
                                   component of the memoisation key
  ClimateData.set_window        -> setWindowPre / setWindowPost: the composition of the
                                   statements on `self._mut_window` before / after the call
                                   `Data.set_window(self, window)` as functions of the counter
  ClimateData.set_global_window -> setGlobalPre / setGlobalPost: same around
                                   `Data.set_global_window(self)`
  Data.set_global_window        -> globalViaSelf: the window is installed through
                                   `self.set_window(...)` (virtual: the subclass override with
                                   its counter statements runs) or `Data.set_window(self, ...)`;
                                   gTimeMin ... gLonMax: the six entries of the dictionary
  Data.__init__                 -> ctorGlobalStatic / ctorWindowStatic: which of
                                   `Data.set_global_window(self)` / `self.set_global_window()`,
                                   `Data.set_window(self, window)` / `self.set_window(window)`
                                   the constructor calls

The *content* (is the counter really increased by every accepted window change?) is not
judged here: `Properties/C13.lean` proves the laws `counter_laws` about the generated
functions (`v < setWindowPost (setWindowPre v)` ...), so that `+= 1`, `+= 2`, a bump moved in
front of the call or a dropped redundant bump keep the proofs, while `= 0` or a conditional
bump break them.  Only a change of *shape* (a counter statement under a condition, another
call structure) raises here and is reported as a broken tie.
"""
import ast
import os
import sys
from fractions import Fraction

REPO = os.environ.get("VERIF_REPO", "/repo")
OUT = sys.argv[1]
COUNTER = "self._mut_window"


class Shape(Exception):
    pass


def need(c, msg):
    if not c:
        raise Shape(msg)


def load_class(rel, name):
    path = os.path.join(REPO, rel)
    tree = ast.parse(open(path).read(), path)
    for n in tree.body:
        if isinstance(n, ast.ClassDef) and n.name == name:
            return n
    raise Shape(f"class {name} not found in {rel}")


def method(cls, name):
    for n in cls.body:
        if isinstance(n, ast.FunctionDef) and n.name == name:
            return n
    raise Shape(f"{cls.name}.{name} not found")


def is_doc(st):
    return isinstance(st, ast.Expr) and isinstance(st.value, ast.Constant) \
        and isinstance(st.value.value, str)


def mentions(node, text):
    return any(isinstance(n, (ast.Attribute, ast.Name)) and ast.unparse(n) == text
               for n in ast.walk(node))


def counter_expr(e, where):
    """an expression in the counter -> Lean term over `ver : Nat`"""
    if ast.unparse(e) == COUNTER:
        return "ver"
    if isinstance(e, ast.Constant) and isinstance(e.value, int) and not isinstance(e.value, bool) \
            and e.value >= 0:
        return f"({e.value} : Nat)"
    if isinstance(e, ast.BinOp) and isinstance(e.op, (ast.Add, ast.Mult)):
        op = "+" if isinstance(e.op, ast.Add) else "*"
        return f"({counter_expr(e.left, where)} {op} {counter_expr(e.right, where)})"
    raise Shape(f"{where}: counter expression `{ast.unparse(e)}` is outside the supported "
                "fragment (counter, natural constants, +, *)")


def counter_stmt(st, where):
    """`self._mut_window = e` / `self._mut_window += e` -> Lean term for the new value"""
    if isinstance(st, ast.AugAssign) and ast.unparse(st.target) == COUNTER:
        need(isinstance(st.op, (ast.Add, ast.Mult)), f"{where}: `{ast.unparse(st)}`")
        op = "+" if isinstance(st.op, ast.Add) else "*"
        return f"(ver {op} {counter_expr(st.value, where)})"
    if isinstance(st, ast.Assign) and len(st.targets) == 1 \
            and ast.unparse(st.targets[0]) == COUNTER:
        return counter_expr(st.value, where)
    return None


def compose(terms):
    """the statements in order, as one function body of `ver`"""
    body = "ver"
    for t in terms:
        body = f"(fun (ver : Nat) => {t}) {body}" if body != "ver" else t
    return body


def split_around(fn, call_texts, where):
    """counter statements before / after the single top-level call whose text is one of
    `call_texts`; statements that do not mention the counter are ignored, a counter statement
    anywhere else than at top level is a change of shape"""
    pre, post, seen = [], [], None
    for st in fn.body:
        if is_doc(st):
            continue
        txt = ast.unparse(st)
        if isinstance(st, ast.Expr) and isinstance(st.value, ast.Call) and txt in call_texts:
            need(seen is None, f"{where}: the base-class call occurs twice")
            seen = txt
            continue
        t = counter_stmt(st, where)
        if t is not None:
            (pre if seen is None else post).append(t)
            continue
        need(not mentions(st, COUNTER),
             f"{where}: `{txt.splitlines()[0]}` touches the counter other than by a plain "
             "top-level assignment")
        need(not any(c in txt for c in ("set_window(", "set_global_window(")),
             f"{where}: unexpected windowing call `{txt.splitlines()[0]}`")
    need(seen is not None, f"{where}: no call of {' / '.join(call_texts)}")
    return compose(pre), compose(post)


def rat_lit(e, where):
    if isinstance(e, ast.UnaryOp) and isinstance(e.op, ast.USub):
        v = -Fraction(e.operand.value)
    else:
        need(isinstance(e, ast.Constant) and isinstance(e.value, (int, float))
             and not isinstance(e.value, bool), f"{where}: `{ast.unparse(e)}` is not a number")
        v = Fraction(e.value)
    return f"(({v.numerator} : Int) : Rat) / (({v.denominator} : Nat) : Rat)" \
        if v.denominator != 1 else f"(({v.numerator} : Int) : Rat)"


def sec_init(cd):
    init = method(cd, "__init__")
    val, seen_base = None, False
    for st in init.body:
        if is_doc(st):
            continue
        txt = ast.unparse(st)
        if isinstance(st, ast.Expr) and isinstance(st.value, ast.Call) \
                and ast.unparse(st.value.func) in ("Data.__init__", "super().__init__"):
            seen_base = True
            continue
        t = counter_stmt(st, "ClimateData.__init__")
        if t is not None:
            need(not seen_base, "ClimateData.__init__: the counter is (re)assigned after "
                                "Data.__init__ has installed the first window")
            need(isinstance(st, ast.Assign), "ClimateData.__init__: counter updated before it exists")
            val = t
        else:
            need(not mentions(st, COUNTER), f"ClimateData.__init__: `{txt.splitlines()[0]}`")
    need(val is not None and seen_base, "ClimateData.__init__: `_mut_window` is not initialised "
                                        "before Data.__init__")
    need("ver" not in val, "ClimateData.__init__: initial counter depends on the counter")
    return ["/-- `ClimateData.__init__`: value of `_mut_window` when `Data.__init__` starts -/",
            f"def initCounter : Nat := {val}", ""]


def sec_key(cd):
    cs = method(cd, "__cache_state__")
    rets = [n for n in ast.walk(cs) if isinstance(n, ast.Return)]
    need(len(rets) == 1 and isinstance(rets[0].value, ast.Tuple), "__cache_state__: one tuple")
    elts = [ast.unparse(e) for e in rets[0].value.elts]
    need(COUNTER in elts, "__cache_state__ does not contain self._mut_window")
    return ["/-- `ClimateData.__cache_state__`: `" + ast.unparse(rets[0].value) + "` -/",
            "def cacheKeyHasCounter : Bool := true",
            f"def cacheKeyArity : Nat := {len(elts)}", ""]


def sec_set_window(cd):
    pre, post = split_around(method(cd, "set_window"),
                             ("Data.set_window(self, window)", "super().set_window(window)"),
                             "ClimateData.set_window")
    return ["/-- `ClimateData.set_window`: counter statements before `Data.set_window(self, window)` -/",
            f"def setWindowPre (ver : Nat) : Nat := {pre}",
            "/-- ... and after it (only reached if the base call did not raise) -/",
            f"def setWindowPost (ver : Nat) : Nat := {post}", ""]


def sec_set_global(cd):
    pre, post = split_around(method(cd, "set_global_window"),
                             ("Data.set_global_window(self)", "super().set_global_window()"),
                             "ClimateData.set_global_window")
    return ["/-- `ClimateData.set_global_window`: counter statements before "
            "`Data.set_global_window(self)` -/",
            f"def setGlobalPre (ver : Nat) : Nat := {pre}",
            "/-- ... and after it -/",
            f"def setGlobalPost (ver : Nat) : Nat := {post}", ""]


GKEYS = ("time_min", "time_max", "lat_min", "lat_max", "lon_min", "lon_max")
GNAMES = ("gTimeMin", "gTimeMax", "gLatMin", "gLatMax", "gLonMin", "gLonMax")


def sec_data_global(da):
    g = method(da, "set_global_window")
    dicts = [st for st in g.body if isinstance(st, ast.Assign) and isinstance(st.value, ast.Dict)]
    need(len(dicts) == 1, "Data.set_global_window: one dictionary literal")
    dname = ast.unparse(dicts[0].targets[0])
    d = {ast.literal_eval(k): v for k, v in zip(dicts[0].value.keys, dicts[0].value.values)}
    need(sorted(d) == sorted(GKEYS), f"Data.set_global_window: keys {sorted(d)}")
    calls = [st for st in g.body if isinstance(st, ast.Expr) and isinstance(st.value, ast.Call)
             and "set_window" in ast.unparse(st.value.func)]
    need(len(calls) == 1, "Data.set_global_window: one set_window call")
    ctext = ast.unparse(calls[0])
    need(ctext in (f"self.set_window({dname})", f"Data.set_window(self, {dname})"),
         f"Data.set_global_window: `{ctext}`")
    out = ["/-- `Data.set_global_window`: `" + ctext + "` — through the (overridable) method of the "
           "object, or the base implementation directly -/",
           f"def globalViaSelf : Bool := {'true' if ctext.startswith('self.') else 'false'}"]
    for k, nm in zip(GKEYS, GNAMES):
        out.append(f"/-- `global_window[{k!r}]` = `{ast.unparse(d[k])}` -/")
        out.append(f"def {nm} : Rat := {rat_lit(d[k], 'Data.set_global_window')}")
    return out + [""]


def sec_data_init(da):
    ini = method(da, "__init__")
    ifs = [st for st in ini.body if isinstance(st, ast.If) and ast.unparse(st.test) == "window is None"]
    need(len(ifs) == 1 and len(ifs[0].body) == 1 and len(ifs[0].orelse) == 1,
         "Data.__init__: `if window is None: ... else: ...`")
    a, b = ast.unparse(ifs[0].body[0]), ast.unparse(ifs[0].orelse[0])
    need(a in ("Data.set_global_window(self)", "self.set_global_window()"), f"Data.__init__: `{a}`")
    need(b in ("Data.set_window(self, window)", "self.set_window(window)"), f"Data.__init__: `{b}`")
    return [f"/-- `Data.__init__`, no window given: `{a}` -/",
            f"def ctorGlobalStatic : Bool := {'true' if a.startswith('Data.') else 'false'}",
            f"/-- `Data.__init__`, window given: `{b}` -/",
            f"def ctorWindowStatic : Bool := {'true' if b.startswith('Data.') else 'false'}", ""]


# if a section no longer has the expected shape the file must still compile (the driver is
# built from the model, which uses these names); the fallbacks are chosen so that the laws
# proved in Properties/C13.lean (`counter_laws`, `global_window_degenerate`) FAIL on them
FALLBACK = {
    "sec_init": ["def initCounter : Nat := 0", ""],
    "sec_key": ["def cacheKeyHasCounter : Bool := false", "def cacheKeyArity : Nat := 0", ""],
    "sec_set_window": ["def setWindowPre (ver : Nat) : Nat := ver",
                       "def setWindowPost (ver : Nat) : Nat := ver", ""],
    "sec_set_global": ["def setGlobalPre (ver : Nat) : Nat := ver",
                       "def setGlobalPost (ver : Nat) : Nat := 0", ""],
    "sec_data_global": ["def globalViaSelf : Bool := true"]
                       + [f"def {nm} : Rat := {i}" for i, nm in enumerate(GNAMES)] + [""],
    "sec_data_init": ["def ctorGlobalStatic : Bool := true", "def ctorWindowStatic : Bool := true", ""],
}


def main():
    out = ["/- GENERATED by translate/gen_C13.py from the current /repo working tree — do not edit. -/",
           "set_option linter.unusedVariables false",
           "namespace Pyunicorn.Generated.StructC13", ""]
    errors = []
    try:
        cd = load_class("src/pyunicorn/climate/climate_data.py", "ClimateData")
        da = load_class("src/pyunicorn/core/data.py", "Data")
    except (Shape, SyntaxError, OSError) as e:
        cd = da = None
        errors.append(str(e))
    for fn, arg in ((sec_init, cd), (sec_key, cd), (sec_set_window, cd), (sec_set_global, cd),
                    (sec_data_global, da), (sec_data_init, da)):
        try:
            need(arg is not None, "source not readable")
            out += fn(arg)
        except (Shape, SyntaxError, ValueError, AttributeError, TypeError) as e:
            errors.append(str(e))
            out += [f"-- SHAPE CHANGED ({fn.__name__}): {str(e).splitlines()[0]}"] + FALLBACK[fn.__name__]
    out.append("end Pyunicorn.Generated.StructC13")
    return "\n".join(out) + "\n", errors


if __name__ == "__main__":
    txt, errors = main()
    if not os.path.exists(OUT) or open(OUT).read() != txt:
        open(OUT, "w").write(txt)
    for e in errors:
        print("gen_C13:", e)
    sys.exit(1 if errors else 0)
