#!/usr/bin/env python3
"""Structural translator for C09: the statement sequences of the methods that make up the
threshold / link-density / non_local / directed machinery of `ClimateNetwork`
(climate/climate_network.py) and `HilbertClimateNetwork` (climate/hilbert.py), regenerated from
the current source into lean/Pyunicorn/Generated/StructC09.lean as *typed* scripts

    def setThreshold : List Stmt := [.storeThreshold .arg, .loadSimilarity, .computeAdjacency, .geoInitLocal]

Every statement of a method body (docstrings, `print`s guarded by `silence_level`, `assert`s,
`del`s and the bookkeeping assignments listed in SKIP excepted) is matched — by its normalised
source text (`ast.unparse`) — against the table below; a statement that is not in the table
becomes `.other "<source>"`, which the interpreter of the model (`Model/SimilarityScript.lean`)
cannot execute, so the tie theorems `script_*` of Properties/C09.lean fail to compile.
"""
import ast
import os
import sys

REPO = os.environ.get("VERIF_REPO", "/repo")
OUT = sys.argv[1]

GEO = ("GeoNetwork.__init__(self, adjacency={}, grid=self.grid, directed=self.directed, "
       "node_weight_type=self.node_weight_type, silence_level=self.silence_level)")
MASK = "self.adjacency = self.adjacency * (self.phase_shift() > 0)"
QIDX = "threshold = flat_corr[min(int((1 - link_density) * len(flat_corr)), len(flat_corr) - 1)]"

TABLE = {
    # ClimateNetwork.set_threshold
    "self._threshold = threshold": ".storeThreshold .arg",
    "similarity = self.similarity_measure()": ".loadSimilarity",
    ("if self.non_local():\n"
     "    A = self._calculate_non_local_adjacency(similarity, threshold)\n"
     "else:\n"
     "    A = self._calculate_threshold_adjacency(similarity, threshold)"): ".computeAdjacency",
    GEO.format("A"): ".geoInitLocal",
    GEO.format("self.adjacency"): ".geoInitSelf",
    # set_link_density
    "threshold = self.threshold_from_link_density(link_density)": ".thresholdFromDensity",
    "self.set_threshold(threshold)": ".callSetThreshold .localThreshold",
    # set_non_local (body of the guard)
    "self._non_local = non_local": ".storeNonLocal",
    "self.set_threshold(self.threshold())": ".callSetThreshold .selfThreshold",
    # __init__
    "self.directed = directed": ".storeDirectedArg",
    "self._similarity_measure = np.abs(similarity_measure.astype('float32'))": ".storeSimilarityAbs",
    ("if threshold is not None:\n"
     "    self.set_threshold(threshold)\n"
     "elif link_density is not None:\n"
     "    self.set_link_density(link_density)\n"
     "else:\n"
     "    print('Either threshold or link_density have to be prescribed for network "
     "construction!')"): ".dispatchInit",
    # _regenerate_network
    ("ClimateNetwork.__init__(self, grid=self.grid, similarity_measure=self._similarity_measure, "
     "threshold=self._threshold, link_density=self.link_density, non_local=self._non_local, "
     "directed=self.directed, node_weight_type=self.node_weight_type, "
     "silence_level=self.silence_level)"): ".callInitWithStored",
    # threshold_from_link_density
    "flat_corr = similarity[~np.eye(similarity.shape[0], dtype=bool)]": ".select .offDiagonal",
    "flat_corr = similarity[np.triu_indices(similarity.shape[0], k=1)]": ".select .upperTriangle",
    "flat_corr = similarity.flatten()": ".select .all",
    "flat_corr.sort()": ".sortAscending",
    QIDX: ".indexQuantile",
    "return threshold": ".returnThreshold",
    # HilbertClimateNetwork
    "ClimateNetwork.set_threshold(self, threshold)": ".parentSetThreshold",
    "if self.directed:\n    " + MASK: ".maskIfSelfDirected",
    "if directed:\n    " + MASK: ".maskIfArgDirected",
    "self._set_directed(directed, calculate_coherence=True)": ".callSetDirectedInternal true",
    "self._set_directed(directed, calculate_coherence=False)": ".callSetDirectedInternal false",
    "self._regenerate_network()": ".callRegenerate",
    "results = self._calculate_hilbert_correlation(self.data.anomaly())": ".computeCoherence",
    "self._similarity_measure = results[0]": ".storeCoherenceSim",
    "self._coherence_phase = results[1]": ".storePhase",
    ("ClimateNetwork.__init__(self, grid=self.data.grid, "
     "similarity_measure=self._similarity_measure, threshold=threshold, "
     "link_density=link_density, non_local=non_local, directed=directed, "
     "node_weight_type=node_weight_type, silence_level=silence_level)"): ".callClimateInit",
}

# bookkeeping statements without influence on similarity / threshold / flags / adjacency
SKIP = {
    "self.grid: GeoGrid = grid", "self.silence_level = silence_level", "self.N = grid.N",
    "self.node_weight_type = node_weight_type",
    "if not hasattr(self, '_mut_clim'):\n    self._mut_clim: int = 0\nelse:\n    self._mut_clim += 1",
    # HilbertClimateNetwork.__init__
    "self._coherence_phase = None", "self.data: ClimateData = data", "self.N = data.grid.N",
    "self._threshold = threshold  # hilbert-init", "self._prescribed_link_density = link_density",
}


def is_noise(st):
    if isinstance(st, ast.Expr) and isinstance(st.value, ast.Constant) \
            and isinstance(st.value.value, str):
        return True                                   # docstring / attribute docstring
    if isinstance(st, (ast.Assert, ast.Delete)):
        return True
    if isinstance(st, ast.If) and "silence_level" in ast.unparse(st.test) and not st.orelse \
            and all(isinstance(b, ast.Expr) and isinstance(b.value, ast.Call)
                    and ast.unparse(b.value.func) == "print" for b in st.body):
        return True
    return False


def lit(s):
    return '"' + s.replace("\\", "\\\\").replace('"', '\\"').replace("\n", "\\n") + '"'


def script(body, hilbert_init=False):
    out = []
    for st in body:
        if is_noise(st):
            continue
        src = ast.unparse(st)
        if hilbert_init and src == "self._threshold = threshold":
            continue          # overwritten by set_threshold inside ClimateNetwork.__init__
        if src in SKIP:
            continue
        out.append(TABLE.get(src, ".other " + lit(src)))
    return out


def method(tree, cls, name):
    c = [n for n in tree.body if isinstance(n, ast.ClassDef) and n.name == cls][0]
    return [n for n in c.body if isinstance(n, ast.FunctionDef) and n.name == name][0]


def guarded(f, test):
    """body of a method whose only real statement is `if <test>: ...` without else:
    -> [.returnUnless…] + script of the body; otherwise everything is `.other`"""
    real = [st for st in f.body if not is_noise(st)]
    if len(real) == 1 and isinstance(real[0], ast.If) and not real[0].orelse \
            and ast.unparse(real[0].test) == test:
        return [".returnUnlessNonLocalChanged"] + script(real[0].body)
    return [".other " + lit(ast.unparse(st)) for st in real]


def branches(f, test):
    """(then-script, else-script) of a method consisting of one `if <test>: … else: …`"""
    real = [st for st in f.body if not is_noise(st)]
    if len(real) == 1 and isinstance(real[0], ast.If) and ast.unparse(real[0].test) == test:
        return script(real[0].body), script(real[0].orelse)
    bad = [".other " + lit(ast.unparse(st)) for st in real]
    return bad, bad


PRELUDE = '''/- GENERATED by translate/gen_C09.py from the current /repo working tree — do not edit. -/
namespace Pyunicorn.Generated.StructC09

/-- where a threshold value comes from -/
inductive Val where
  | arg | selfThreshold | localThreshold
  deriving DecidableEq, Repr

/-- which entries of the similarity matrix enter the quantile -/
inductive Sel where
  | offDiagonal | upperTriangle | all
  deriving DecidableEq, Repr

/-- the statements of the threshold / density / non_local / directed machinery -/
inductive Stmt where
  | storeThreshold (v : Val)
  | loadSimilarity
  | computeAdjacency
  | geoInitLocal
  | geoInitSelf
  | thresholdFromDensity
  | callSetThreshold (v : Val)
  | returnUnlessNonLocalChanged
  | storeNonLocal
  | storeDirectedArg
  | storeSimilarityAbs
  | dispatchInit
  | callInitWithStored
  | select (s : Sel)
  | sortAscending
  | indexQuantile
  | returnThreshold
  | parentSetThreshold
  | maskIfSelfDirected
  | maskIfArgDirected
  | callSetDirectedInternal (calculate : Bool)
  | callRegenerate
  | computeCoherence
  | storeCoherenceSim
  | storePhase
  | callClimateInit
  | other (src : String)
  deriving DecidableEq, Repr
'''


def main():
    base = os.path.join(REPO, "src/pyunicorn/climate")
    cn = ast.parse(open(os.path.join(base, "climate_network.py")).read())
    hi = ast.parse(open(os.path.join(base, "hilbert.py")).read())
    defs = []

    def emit(name, where, items):
        defs.append(f"/-- `{where}` -/\ndef {name} : List Stmt :=\n  [" + ",\n   ".join(items) + "]\n")

    C = "ClimateNetwork"
    emit("setThreshold", f"{C}.set_threshold", script(method(cn, C, "set_threshold").body))
    emit("setLinkDensity", f"{C}.set_link_density", script(method(cn, C, "set_link_density").body))
    emit("setNonLocal", f"{C}.set_non_local",
         guarded(method(cn, C, "set_non_local"), "self.non_local() != non_local"))
    emit("init", f"{C}.__init__", script(method(cn, C, "__init__").body))
    emit("regenerate", f"{C}._regenerate_network", script(method(cn, C, "_regenerate_network").body))
    emit("thresholdFromLinkDensity", f"{C}.threshold_from_link_density",
         script(method(cn, C, "threshold_from_link_density").body))
    H = "HilbertClimateNetwork"
    emit("hilbertSetThreshold", f"{H}.set_threshold", script(method(hi, H, "set_threshold").body))
    emit("hilbertSetDirected", f"{H}.set_directed", script(method(hi, H, "set_directed").body))
    a, b = branches(method(hi, H, "_set_directed"), "calculate_coherence")
    emit("setDirectedCalc", f"{H}._set_directed, branch calculate_coherence=True", a)
    emit("setDirectedNoCalc", f"{H}._set_directed, branch calculate_coherence=False", b)
    emit("hilbertInit", f"{H}.__init__", script(method(hi, H, "__init__").body, hilbert_init=True))
    # which classes of the climate package override the setters (dynamic dispatch of
    # `self.set_threshold` inside the inherited methods)
    over = []
    for fn in sorted(os.listdir(base)):
        if fn.endswith(".py"):
            t = ast.parse(open(os.path.join(base, fn)).read())
            for c in t.body:
                if isinstance(c, ast.ClassDef) and c.name != C:
                    for n in c.body:
                        if isinstance(n, ast.FunctionDef) and n.name in (
                                "set_threshold", "set_link_density", "set_non_local",
                                "threshold_from_link_density", "_regenerate_network",
                                "_calculate_threshold_adjacency",
                                "_calculate_non_local_adjacency"):
                            over.append(f'("{c.name}", "{n.name}")')
    defs.append("/-- overrides of the machinery in subclasses of the climate package -/\n"
                "def overrides : List (String × String) := [" + ", ".join(over) + "]\n")
    os.makedirs(os.path.dirname(OUT), exist_ok=True)
    with open(OUT, "w") as f:
        f.write(PRELUDE + "\n" + "\n".join(defs)
                + "\nend Pyunicorn.Generated.StructC09\n")


if __name__ == "__main__":
    main()
