#!/usr/bin/env python3
"""Structural translator for C09: the statement sequences of the methods that make up the
threshold / link-density / non_local / directed machinery of `ClimateNetwork`
(climate/climate_network.py) and `HilbertClimateNetwork` (climate/hilbert.py), regenerated from
the current source into lean/Pyunicorn/Generated/StructC09.lean as *typed* scripts

    def setThreshold : List Stmt := [.storeThreshold .arg, .loadSimilarity, .computeAdjacency, .geoInitLocal]

Every statement of a method body (docstrings, `print`s guarded by `silence_level`, `assert`s,
`del`s and the bookkeeping assignments listed in SKIP excepted) is matched — by its normalised
source text (`ast.unparse`) — against the table below; a statement that is not in the table
becomes `.other "<source>"`, which the interpreter of the model (`Model/SimilarityScript.lean`)
cannot execute, so the tie theorems `script_*` of Properties/C09.lean fail to compile.

Round 4 — the match is made robust against *harmless* refactorings by normalising each method
before the table lookup (`normalise`):
  * trivial getters are inlined: `self.threshold()` -> `self._threshold`, `self.non_local()` ->
    `self._non_local`, `self.similarity_measure()` -> `self._similarity_measure` — only if the body
    of the getter in the current source *is* `return self._x` (checked here; otherwise nothing is
    inlined and the scripts degrade to `.other`)
  * keyword arguments of every call are sorted by name
  * local variables (names bound in the method that are not parameters) are renamed `_v0, _v1, …`
    in order of first binding
  * a table value may be a list of statements (an inlined temporary), several source forms may map
    to the same statement (early-return guard, swapped branches, positional flag)
A change of *meaning* (another selection of entries, a missing call, a flag not stored, an
accessor used without being called, a different index) still yields `.other` or another script.
"""
import ast
import os
import sys

sys.path.insert(0, os.path.dirname(os.path.abspath(__file__)))
import gen_arith as GA  # noqa: E402  (the expression translator, used as a library)

REPO = os.environ.get("VERIF_REPO", "/repo")
OUT = sys.argv[1]

# all keys are in normalised form: getters inlined, keyword arguments sorted, locals `_v<k>`
GEO = ("GeoNetwork.__init__(self, adjacency={}, directed=self.directed, grid=self.grid, "
       "node_weight_type=self.node_weight_type, silence_level=self.silence_level)")
MASK = "self.adjacency = self.adjacency * (self.phase_shift() > 0)"
QIDX = "_v2 = _v1[min(int((1 - link_density) * len(_v1)), len(_v1) - 1)]"
NLA = "self._calculate_non_local_adjacency(_v0, threshold)"
THA = "self._calculate_threshold_adjacency(_v0, threshold)"

TABLE = {
    # ClimateNetwork.set_threshold
    "self._threshold = threshold": ".storeThreshold .arg",
    "_v0 = self._similarity_measure": ".loadSimilarity",
    f"if self._non_local:\n    _v1 = {NLA}\nelse:\n    _v1 = {THA}": ".computeAdjacency",
    f"if not self._non_local:\n    _v1 = {THA}\nelse:\n    _v1 = {NLA}": ".computeAdjacency",
    f"_v1 = {NLA} if self._non_local else {THA}": ".computeAdjacency",
    GEO.format("_v1"): ".geoInitLocal",
    GEO.format("self.adjacency"): ".geoInitSelf",
    # set_link_density
    "_v0 = self.threshold_from_link_density(link_density)": ".thresholdFromDensity",
    "self.set_threshold(_v0)": ".callSetThreshold .localThreshold",
    "self.set_threshold(self.threshold_from_link_density(link_density))":
        [".thresholdFromDensity", ".callSetThreshold .localThreshold"],
    # set_non_local (body of the guard)
    "self._non_local = non_local": ".storeNonLocal",
    "self.set_threshold(self._threshold)": ".callSetThreshold .selfThreshold",
    # __init__
    "self.directed = directed": ".storeDirectedArg",
    "self._similarity_measure = np.abs(similarity_measure.astype('float32'))": ".storeSimilarityAbs",
    "self._similarity_measure = np.abs(similarity_measure.astype(np.float32))": ".storeSimilarityAbs",
    ("if threshold is not None:\n"
     "    self.set_threshold(threshold)\n"
     "elif link_density is not None:\n"
     "    self.set_link_density(link_density)\n"
     "else:\n"
     "    print('Either threshold or link_density have to be prescribed for network "
     "construction!')"): ".dispatchInit",
    # _regenerate_network
    ("ClimateNetwork.__init__(self, directed=self.directed, grid=self.grid, "
     "link_density=self.link_density, node_weight_type=self.node_weight_type, "
     "non_local=self._non_local, silence_level=self.silence_level, "
     "similarity_measure=self._similarity_measure, threshold=self._threshold)"): ".callInitWithStored",
    # threshold_from_link_density
    "_v1 = _v0[~np.eye(_v0.shape[0], dtype=bool)]": ".select .offDiagonal",
    "_v1 = _v0[np.triu_indices(_v0.shape[0], k=1)]": ".select .upperTriangle",
    "_v1 = _v0.flatten()": ".select .all",
    "_v1.sort()": ".sortAscending",
    QIDX: ".indexQuantile",
    "return _v2": ".returnThreshold",
    # link_density_function
    "_v0, _v1 = np.histogram(self._similarity_measure, bins=n_bins)": ".histogramAll",
    "(_v0, _v1) = np.histogram(self._similarity_measure, bins=n_bins)": ".histogramAll",
    "_v0 = _v0.astype('float64')": ".histToFloat",
    "_v0 /= _v0.sum()": ".histNormalise",
    "_v2 = np.empty(n_bins)": ".allocResult",
    "for _v3 in range(n_bins):\n    _v2[_v3] = _v0[:_v3].sum()": ".cumulativeLoop",
    "return (_v2, _v1)": ".returnLdf",
    # HilbertClimateNetwork
    "ClimateNetwork.set_threshold(self, threshold)": ".parentSetThreshold",
    "if self.directed:\n    " + MASK: ".maskIfSelfDirected",
    "if directed:\n    " + MASK: ".maskIfArgDirected",
    "self._set_directed(directed, calculate_coherence=True)": ".callSetDirectedInternal true",
    "self._set_directed(directed, calculate_coherence=False)": ".callSetDirectedInternal false",
    "self._set_directed(directed, True)": ".callSetDirectedInternal true",
    "self._set_directed(directed, False)": ".callSetDirectedInternal false",
    "self._set_directed(directed)": ".callSetDirectedInternal true",
    "self._regenerate_network()": ".callRegenerate",
    "_v0 = self._calculate_hilbert_correlation(self.data.anomaly())": ".computeCoherence",
    "self._similarity_measure = _v0[0]": ".storeCoherenceSim",
    "self._coherence_phase = _v0[1]": ".storePhase",
    ("ClimateNetwork.__init__(self, directed=directed, grid=self.data.grid, "
     "link_density=link_density, node_weight_type=node_weight_type, non_local=non_local, "
     "silence_level=silence_level, similarity_measure=self._similarity_measure, "
     "threshold=threshold)"): ".callClimateInit",
}

# bookkeeping statements without influence on similarity / threshold / flags / adjacency
SKIP = {
    "self.grid: GeoGrid = grid", "self.silence_level = silence_level", "self.N = grid.N",
    "self.node_weight_type = node_weight_type",
    "if not hasattr(self, '_mut_clim'):\n    self._mut_clim: int = 0\nelse:\n    self._mut_clim += 1",
    # HilbertClimateNetwork.__init__
    "self._coherence_phase = None", "self.data: ClimateData = data", "self.N = data.grid.N",
    "self._threshold = threshold  # hilbert-init", "self._prescribed_link_density = link_density",
}


GETTERS = {}      # accessor name -> attribute, filled from the current source by read_getters


def read_getters(tree, cls):
    """`def threshold(self): return self._threshold` and the like: only a body that is exactly
    `return self._x` (optionally wrapped in try/except AttributeError: raise …) is inlined"""
    c = [n for n in tree.body if isinstance(n, ast.ClassDef) and n.name == cls][0]
    for name, attr in (("threshold", "_threshold"), ("non_local", "_non_local"),
                       ("similarity_measure", "_similarity_measure")):
        fs = [n for n in c.body if isinstance(n, ast.FunctionDef) and n.name == name]
        if len(fs) != 1 or len(fs[0].args.args) != 1:
            continue
        real = [st for st in fs[0].body if not is_noise(st)]
        if len(real) == 1 and isinstance(real[0], ast.Try) and len(real[0].body) == 1 \
                and all(isinstance(h.type, ast.Name) and h.type.id == "AttributeError"
                        and len(h.body) == 1 and isinstance(h.body[0], ast.Raise)
                        for h in real[0].handlers) and not real[0].orelse and not real[0].finalbody:
            real = real[0].body
        if len(real) == 1 and isinstance(real[0], ast.Return) \
                and ast.unparse(real[0].value) == "self." + attr:
            GETTERS[name] = attr


class Normalise(ast.NodeTransformer):
    def __init__(self, params):
        self.params = set(params)
        self.locals = {}

    def visit_Call(self, node):
        self.generic_visit(node)
        f = node.func
        if isinstance(f, ast.Attribute) and isinstance(f.value, ast.Name) and f.value.id == "self" \
                and f.attr in GETTERS and not node.args and not node.keywords:
            return ast.copy_location(
                ast.Attribute(value=ast.Name(id="self", ctx=ast.Load()), attr=GETTERS[f.attr],
                              ctx=ast.Load()), node)
        if all(k.arg is not None for k in node.keywords):
            node.keywords.sort(key=lambda k: k.arg)
        return node

    def visit_Name(self, node):
        if node.id in self.locals:
            node.id = self.locals[node.id]
        return node


def bound_names(f):
    """names bound in the method body (assignment / for / with targets), in source order"""
    out = []

    class V(ast.NodeVisitor):
        def visit_Name(self, n):
            if isinstance(n.ctx, ast.Store) and n.id not in out:
                out.append(n.id)

        def visit_FunctionDef(self, n):      # nested definitions keep their own scope
            pass
        visit_Lambda = visit_FunctionDef
    for st in f.body:
        V().visit(st)
    return out


def normalise(f):
    """-> list of normalised statements of the method body"""
    params = [a.arg for a in f.args.args + f.args.kwonlyargs]
    nz = Normalise(params)
    k = 0
    for name in bound_names(f):
        if name not in params:
            nz.locals[name] = f"_v{k}"
            k += 1
    return [ast.fix_missing_locations(nz.visit(st)) for st in f.body]


def is_noise(st):
    if isinstance(st, ast.Expr) and isinstance(st.value, ast.Constant) \
            and isinstance(st.value.value, str):
        return True                                   # docstring / attribute docstring
    if isinstance(st, (ast.Assert, ast.Delete)):
        return True
    if isinstance(st, ast.If) and "silence_level" in ast.unparse(st.test) and not st.orelse \
            and all(isinstance(b, ast.Expr) and isinstance(b.value, ast.Call)
                    and ast.unparse(b.value.func) == "print" for b in st.body):
        return True
    return False


def lit(s):
    return '"' + s.replace("\\", "\\\\").replace('"', '\\"').replace("\n", "\\n") + '"'


def script(body, hilbert_init=False):
    out = []
    for st in body:
        if is_noise(st):
            continue
        src = ast.unparse(st)
        if hilbert_init and src == "self._threshold = threshold":
            continue          # overwritten by set_threshold inside ClimateNetwork.__init__
        if src in SKIP:
            continue
        v = TABLE.get(src, ".other " + lit(src))
        out.extend(v if isinstance(v, list) else [v])
    return out


def method(tree, cls, name):
    c = [n for n in tree.body if isinstance(n, ast.ClassDef) and n.name == cls][0]
    return [n for n in c.body if isinstance(n, ast.FunctionDef) and n.name == name][0]


def guarded(f, tests, negtests):
    """body of a method whose only real statement is `if <test>: ...` without else — or which
    starts with the early return `if <negated test>: return` —
    -> [.returnUnless…] + script of the guarded statements; otherwise everything is `.other`"""
    real = [st for st in normalise(f) if not is_noise(st)]
    if len(real) == 1 and isinstance(real[0], ast.If) and not real[0].orelse \
            and ast.unparse(real[0].test) in tests:
        return [".returnUnlessNonLocalChanged"] + script(real[0].body)
    if real and isinstance(real[0], ast.If) and not real[0].orelse \
            and ast.unparse(real[0].test) in negtests and len(real[0].body) == 1 \
            and isinstance(real[0].body[0], ast.Return) and real[0].body[0].value is None:
        return [".returnUnlessNonLocalChanged"] + script(real[1:])
    return [".other " + lit(ast.unparse(st)) for st in real]


def branches(f, test):
    """(then-script, else-script) of a method consisting of one `if <test>: … else: …`"""
    real = [st for st in normalise(f) if not is_noise(st)]
    if len(real) == 1 and isinstance(real[0], ast.If) and ast.unparse(real[0].test) == test:
        return script(real[0].body), script(real[0].orelse)
    if len(real) == 1 and isinstance(real[0], ast.If) and ast.unparse(real[0].test) == "not " + test:
        return script(real[0].orelse), script(real[0].body)
    bad = [".other " + lit(ast.unparse(st)) for st in real]
    return bad, bad


PRELUDE = '''/- GENERATED by translate/gen_C09.py from the current /repo working tree — do not edit. -/
namespace Pyunicorn.Generated.StructC09

/-- where a threshold value comes from -/
inductive Val where
  | arg | selfThreshold | localThreshold
  deriving DecidableEq, Repr

/-- which entries of the similarity matrix enter the quantile -/
inductive Sel where
  | offDiagonal | upperTriangle | all
  deriving DecidableEq, Repr

/-- the statements of the threshold / density / non_local / directed machinery -/
inductive Stmt where
  | storeThreshold (v : Val)
  | loadSimilarity
  | computeAdjacency
  | geoInitLocal
  | geoInitSelf
  | thresholdFromDensity
  | callSetThreshold (v : Val)
  | returnUnlessNonLocalChanged
  | storeNonLocal
  | storeDirectedArg
  | storeSimilarityAbs
  | dispatchInit
  | callInitWithStored
  | select (s : Sel)
  | sortAscending
  | indexQuantile
  | returnThreshold
  | parentSetThreshold
  | maskIfSelfDirected
  | maskIfArgDirected
  | callSetDirectedInternal (calculate : Bool)
  | callRegenerate
  | computeCoherence
  | storeCoherenceSim
  | storePhase
  | callClimateInit
  | histogramAll
  | histToFloat
  | histNormalise
  | allocResult
  | cumulativeLoop
  | returnLdf
  | other (src : String)
  deriving DecidableEq, Repr
'''


def quantile_index(f):
    """the index expression of `threshold_from_link_density`, found *structurally* in the normalised
    body — `<v> = <sorted>[<expr>]` where `<sorted>` is the local `.sort()` was called on — and
    translated by gen_arith's expression translator (round 4: independent of the names of the
    locals; `len(<sorted>)` becomes the parameter `len_sorted`)"""
    body = [st for st in normalise(f) if not is_noise(st)]
    srt = [st.value.func.value.id for st in body
           if isinstance(st, ast.Expr) and isinstance(st.value, ast.Call)
           and isinstance(st.value.func, ast.Attribute) and st.value.func.attr == "sort"
           and isinstance(st.value.func.value, ast.Name) and not st.value.args]
    if len(srt) != 1:
        return "-- UNTRANSLATABLE thrIndex: no unique `<local>.sort()` statement\n"
    cands = [st.value.slice for st in body
             if isinstance(st, ast.Assign) and isinstance(st.value, ast.Subscript)
             and isinstance(st.value.value, ast.Name) and st.value.value.id == srt[0]]
    if len(cands) != 1:
        return "-- UNTRANSLATABLE thrIndex: no unique `<v> = <sorted>[<expr>]` statement\n"
    item = {"params": [["link_density", "Rat"], ["len_sorted", "Int"]],
            "rename": {"len_" + srt[0]: "len_sorted"}}
    try:
        text, ty = GA.Tr(item).tr(cands[0])
    except GA.Untranslatable as e:
        return f"-- UNTRANSLATABLE thrIndex: {e}\n"
    if ty != "Int":
        return f"-- UNTRANSLATABLE thrIndex: expression is {ty}\n"
    return ("/-- the index into the sorted similarities in `ClimateNetwork.threshold_from_link_density`: `"
            + ast.unparse(cands[0]).replace(srt[0], "sorted") + "` -/\n"
            f"def thrIndex (link_density : Rat) (len_sorted : Int) : Int :=\n  {text}\n")


def main():
    base = os.path.join(REPO, "src/pyunicorn/climate")
    cn = ast.parse(open(os.path.join(base, "climate_network.py")).read())
    hi = ast.parse(open(os.path.join(base, "hilbert.py")).read())
    read_getters(cn, "ClimateNetwork")
    defs = []

    def emit(name, where, items):
        defs.append(f"/-- `{where}` -/\ndef {name} : List Stmt :=\n  [" + ",\n   ".join(items) + "]\n")

    C = "ClimateNetwork"
    emit("setThreshold", f"{C}.set_threshold", script(normalise(method(cn, C, "set_threshold"))))
    emit("setLinkDensity", f"{C}.set_link_density",
         script(normalise(method(cn, C, "set_link_density"))))
    emit("setNonLocal", f"{C}.set_non_local",
         guarded(method(cn, C, "set_non_local"),
                 ("self._non_local != non_local", "non_local != self._non_local",
                  "not self._non_local == non_local"),
                 ("self._non_local == non_local", "non_local == self._non_local")))
    emit("init", f"{C}.__init__", script(normalise(method(cn, C, "__init__"))))
    emit("regenerate", f"{C}._regenerate_network",
         script(normalise(method(cn, C, "_regenerate_network"))))
    emit("thresholdFromLinkDensity", f"{C}.threshold_from_link_density",
         script(normalise(method(cn, C, "threshold_from_link_density"))))
    defs.append(quantile_index(method(cn, C, "threshold_from_link_density")))
    emit("linkDensityFunction", f"{C}.link_density_function",
         script(normalise(method(cn, C, "link_density_function"))))
    H = "HilbertClimateNetwork"
    emit("hilbertSetThreshold", f"{H}.set_threshold",
         script(normalise(method(hi, H, "set_threshold"))))
    emit("hilbertSetDirected", f"{H}.set_directed", script(normalise(method(hi, H, "set_directed"))))
    a, b = branches(method(hi, H, "_set_directed"), "calculate_coherence")
    emit("setDirectedCalc", f"{H}._set_directed, branch calculate_coherence=True", a)
    emit("setDirectedNoCalc", f"{H}._set_directed, branch calculate_coherence=False", b)
    emit("hilbertInit", f"{H}.__init__",
         script(normalise(method(hi, H, "__init__")), hilbert_init=True))
    defs.append("/-- accessors of `ClimateNetwork` that are trivial getters in the current source "
                "(inlined before matching) -/\n"
                "def getters : List (String × String) := ["
                + ", ".join(f'("{k}", "{v}")' for k, v in sorted(GETTERS.items())) + "]\n")
    # which classes of the climate package override the setters (dynamic dispatch of
    # `self.set_threshold` inside the inherited methods)
    over = []
    for fn in sorted(os.listdir(base)):
        if fn.endswith(".py"):
            t = ast.parse(open(os.path.join(base, fn)).read())
            for c in t.body:
                if isinstance(c, ast.ClassDef) and c.name != C:
                    for n in c.body:
                        if isinstance(n, ast.FunctionDef) and n.name in (
                                "set_threshold", "set_link_density", "set_non_local",
                                "threshold_from_link_density", "_regenerate_network",
                                "_calculate_threshold_adjacency",
                                "_calculate_non_local_adjacency"):
                            over.append(f'("{c.name}", "{n.name}")')
    defs.append("/-- overrides of the machinery in subclasses of the climate package -/\n"
                "def overrides : List (String × String) := [" + ", ".join(over) + "]\n")
    os.makedirs(os.path.dirname(OUT), exist_ok=True)
    with open(OUT, "w") as f:
        f.write(PRELUDE + "\n" + "\n".join(defs)
                + "\nend Pyunicorn.Generated.StructC09\n")


if __name__ == "__main__":
    main()
