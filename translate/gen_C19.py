#!/usr/bin/env python3
"""Structural facts about the three MPI master loops of core/network.py,
regenerated from the current source into lean/Pyunicorn/Generated/StructC19.lean:

  <m>_submit_conditions : the `if` tests enclosing `mpi.submit_call(...)`
  <m>_get_conditions    : the `if` tests enclosing `mpi.get_result(...)`
  <m>_submit_id / <m>_get_id : the id expression passed
  <m>_assembly : "slice" (result[start_i:end_i] = part) or "add" (result += part)
"""
import ast
import os
import sys

REPO = os.environ.get("VERIF_REPO", "/repo")
OUT = sys.argv[1]
METHODS = [("arenas", "nsi_arenas_betweenness"), ("newman", "newman_betweenness"),
           ("nsinewman", "nsi_newman_betweenness")]


def enclosing_ifs(func, pred):
    res = []

    def walk(node, conds):
        for child in ast.iter_child_nodes(node):
            if isinstance(child, ast.If):
                t = ast.unparse(child.test)
                for b in child.body:
                    walk_stmt(b, conds + [t])
                for b in child.orelse:
                    walk_stmt(b, conds + ["not (" + t + ")"])
            else:
                walk_stmt(child, conds)

    def walk_stmt(node, conds):
        if isinstance(node, ast.Call) and pred(node):
            res.append((list(conds), node))
        if isinstance(node, ast.If):
            t = ast.unparse(node.test)
            walk_stmt(node.test, conds)
            for b in node.body:
                walk_stmt(b, conds + [t])
            for b in node.orelse:
                walk_stmt(b, conds + ["not (" + t + ")"])
        else:
            for child in ast.iter_child_nodes(node):
                walk_stmt(child, conds)

    walk_stmt(func, [])
    return res


def lit(s):
    return '"' + s.replace("\\", "\\\\").replace('"', '\\"') + '"'


PROTO_FUNCS = ["submit_call", "get_result", "get_next_result", "terminate", "serve", "run"]
STATE_NAMES = ("total_time_est", "queue", "slave_queue", "assigned", "results", "available")
KEEP_CALLS = ("comm.send", "comm.recv", "comm.Abort", "queue.append", "queue.remove",
              "assigned.pop", "get_result", "serve", "terminate", "abort", "object_to_call",
              "numpy.argmin")


def protocol_statements(func):
    """the statements of `func` that make up the protocol (communication, the master's
    bookkeeping, slave choice, control flow), in source order, each prefixed by the
    enclosing conditions (print / timing / statistics statements are dropped)."""
    out = []

    def relevant(node):
        if isinstance(node, (ast.Raise, ast.Break)):
            return True
        if isinstance(node, ast.Return):
            return True
        txt = ast.unparse(node)
        if isinstance(node, (ast.Assign, ast.AugAssign)):
            tgt = ast.unparse(node.targets[0] if isinstance(node, ast.Assign) else node.target)
            base = tgt.split("[")[0]
            if base in STATE_NAMES or base in ("slave", "source", "id", "result") \
                    or tgt.startswith("n_processed[source]") or tgt.startswith("(result"):
                return True
            if tgt.startswith("(name_to_call"):
                return True
        for c in ast.walk(node):
            if isinstance(c, ast.Call):
                fn = ast.unparse(c.func)
                if fn in KEEP_CALLS or fn.endswith(".append") and fn.split(".")[0].split("[")[0] in STATE_NAMES \
                        or fn.endswith(".remove") and fn.split("[")[0] in STATE_NAMES \
                        or fn.startswith('_globals['):
                    return True
        return False

    def short(node):
        if isinstance(node, ast.Raise):
            exc = node.exc
            if exc is None:
                return "raise"
            return "raise " + (ast.unparse(exc.func) if isinstance(exc, ast.Call) else ast.unparse(exc))
        return " ".join(ast.unparse(node).split())

    def walk(stmts, conds):
        for st in stmts:
            if isinstance(st, ast.If):
                t = " ".join(ast.unparse(st.test).split())
                if t in ("_verbose", "verbose"):
                    continue
                walk(st.body, conds + [t])
                walk(st.orelse, conds + ["not (" + t + ")"])
            elif isinstance(st, (ast.While, ast.For)):
                head = ("while " + ast.unparse(st.test)) if isinstance(st, ast.While) else \
                    ("for " + ast.unparse(st.target) + " in " + ast.unparse(st.iter))
                walk(st.body, conds + [head])
            elif isinstance(st, ast.Try):
                walk(st.body, conds)
                for hnd in st.handlers:
                    walk(hnd.body, conds + ["except " + (ast.unparse(hnd.type) if hnd.type else "")])
            elif isinstance(st, ast.Expr) and isinstance(st.value, ast.Constant):
                continue
            elif relevant(st):
                out.append(("[" + " & ".join(conds) + "] " if conds else "") + short(st))
    walk(func.body, [])
    return out


def main():
    src = open(os.path.join(REPO, "src/pyunicorn/core/network.py")).read()
    tree = ast.parse(src)
    cls = [n for n in tree.body if isinstance(n, ast.ClassDef) and n.name == "Network"][0]
    out = ["/- GENERATED by translate/gen_C19.py from the current /repo working tree — do not edit. -/",
           "namespace Pyunicorn.Generated.StructC19", ""]
    for short, name in METHODS:
        f = [n for n in cls.body if isinstance(n, ast.FunctionDef) and n.name == name][0]
        subs = enclosing_ifs(f, lambda c: ast.unparse(c.func) == "mpi.submit_call")
        gets = enclosing_ifs(f, lambda c: ast.unparse(c.func) == "mpi.get_result")
        sc = subs[0][0] if subs else ["<no submit_call>"]
        gc = gets[0][0] if gets else ["<no get_result>"]
        sid = [ast.unparse(k.value) for k in subs[0][1].keywords if k.arg == "id"] if subs else []
        gid = [ast.unparse(a) for a in gets[0][1].args] if gets else []
        asm = "none"
        for n in ast.walk(f):
            if isinstance(n, ast.Assign) and isinstance(n.targets[0], ast.Subscript) \
                    and ast.unparse(n.targets[0]).startswith("component_betweenness[start_i:end_i]"):
                asm = "slice"
            if isinstance(n, ast.AugAssign) and ast.unparse(n.target) == "component_betweenness" \
                    and ast.unparse(n.value) == "this_betweenness":
                asm = "add"
        out.append(f"def {short}_submit_conditions : List String := [{', '.join(lit(c) for c in sc)}]")
        out.append(f"def {short}_get_conditions : List String := [{', '.join(lit(c) for c in gc)}]")
        out.append(f"def {short}_submit_id : List String := [{', '.join(lit(c) for c in sid)}]")
        out.append(f"def {short}_get_id : List String := [{', '.join(lit(c) for c in gid)}]")
        out.append(f"def {short}_n_submit_sites : Nat := {len(subs)}")
        out.append(f"def {short}_assembly : String := {lit(asm)}")
        out.append("")
    # ---- multiprocessing split of `targets` in Network._nsi_betweenness ----------------
    f = [n for n in cls.body if isinstance(n, ast.FunctionDef) and n.name == "_nsi_betweenness"][0]
    split_call, map_call, reduce_call, serial_call, pool_ctor = "<none>", "<none>", "<none>", "<none>", "<none>"
    pool_conds = []
    for conds, c in enclosing_ifs(f, lambda c: ast.unparse(c.func) == "np.array_split"):
        split_call, pool_conds = ast.unparse(c), conds
    for conds, c in enclosing_ifs(f, lambda c: ast.unparse(c.func) == "pool.map"):
        map_call = ast.unparse(c)
    for n in ast.walk(f):
        if isinstance(n, ast.Assign) and ast.unparse(n.targets[0]) == "betw_w":
            v = n.value
            if isinstance(v, ast.Call) and ast.unparse(v.func) == "np.sum":
                reduce_call = "np.sum(<map>, " + ", ".join(
                    f"{k.arg}={ast.unparse(k.value)}" for k in v.keywords) + ")"
            elif isinstance(v, ast.Call) and ast.unparse(v.func) == "worker":
                serial_call = ast.unparse(v)
            else:
                reduce_call = ast.unparse(v)
        if isinstance(n, ast.Assign) and ast.unparse(n.targets[0]) == "batches":
            split_call = ast.unparse(n.value)
        if isinstance(n, ast.Assign) and ast.unparse(n.targets[0]) == "worker":
            pool_ctor = ast.unparse(n.value)
    out.append(f"def pool_split : String := {lit(split_call)}")
    out.append(f"def pool_map : String := {lit(map_call)}")
    out.append(f"def pool_reduce : String := {lit(reduce_call)}")
    out.append(f"def pool_serial : String := {lit(serial_call)}")
    out.append(f"def pool_worker : String := {lit(pool_ctor)}")
    out.append(f"def pool_conditions : List String := [{', '.join(lit(c) for c in pool_conds)}]")
    out.append("")
    # ---- protocol statements of utils/mpi.py ----------------------------------------------
    msrc = open(os.path.join(REPO, "src/pyunicorn/utils/mpi.py")).read()
    mtree = ast.parse(msrc)
    funcs = {}
    for n in ast.walk(mtree):
        if isinstance(n, ast.FunctionDef) and n.name in PROTO_FUNCS and n.name not in funcs:
            funcs[n.name] = n
    for name in PROTO_FUNCS:
        stmts = protocol_statements(funcs[name]) if name in funcs else ["<missing>"]
        out.append(f"def mpi_{name} : List String := [")
        out.append(",\n".join("  " + lit(x) for x in stmts))
        out.append("]")
        out.append("")
    # module-level initialisation of the master's tables
    inits = []
    for n in ast.walk(mtree):
        if isinstance(n, ast.Assign) and isinstance(n.targets[0], (ast.Name, ast.Subscript)):
            tgt = ast.unparse(n.targets[0])
            if tgt.split("[")[0] in ("total_time_est", "queue", "assigned", "slave_queue", "am_master",
                                     "n_slaves", "size", "rank") and n.col_offset <= 4:
                inits.append(" ".join(ast.unparse(n).split()))
    out.append("def mpi_init : List String := [")
    out.append(",\n".join("  " + lit(x) for x in inits))
    out.append("]")
    out.append("")
    out.append("end Pyunicorn.Generated.StructC19")
    txt = "\n".join(out) + "\n"
    if not os.path.exists(OUT) or open(OUT).read() != txt:
        open(OUT, "w").write(txt)


if __name__ == "__main__":
    main()
