#!/usr/bin/env python3
"""Structural facts about the three MPI master loops of core/network.py,
regenerated from the current source into lean/Pyunicorn/Generated/StructC19.lean:

  <m>_submit_conditions : the `if` tests enclosing `mpi.submit_call(...)`
  <m>_get_conditions    : the `if` tests enclosing `mpi.get_result(...)`
  <m>_submit_id / <m>_get_id : the id expression passed
  <m>_assembly : "slice" (result[start_i:end_i] = part) or "add" (result += part)
"""
import ast
import os
import sys

REPO = os.environ.get("VERIF_REPO", "/repo")
OUT = sys.argv[1]
METHODS = [("arenas", "nsi_arenas_betweenness"), ("newman", "newman_betweenness"),
           ("nsinewman", "nsi_newman_betweenness")]


def enclosing_ifs(func, pred):
    res = []

    def walk(node, conds):
        for child in ast.iter_child_nodes(node):
            if isinstance(child, ast.If):
                t = ast.unparse(child.test)
                for b in child.body:
                    walk_stmt(b, conds + [t])
                for b in child.orelse:
                    walk_stmt(b, conds + ["not (" + t + ")"])
            else:
                walk_stmt(child, conds)

    def walk_stmt(node, conds):
        if isinstance(node, ast.Call) and pred(node):
            res.append((list(conds), node))
        if isinstance(node, ast.If):
            t = ast.unparse(node.test)
            walk_stmt(node.test, conds)
            for b in node.body:
                walk_stmt(b, conds + [t])
            for b in node.orelse:
                walk_stmt(b, conds + ["not (" + t + ")"])
        else:
            for child in ast.iter_child_nodes(node):
                walk_stmt(child, conds)

    walk_stmt(func, [])
    return res


def lit(s):
    return '"' + s.replace("\\", "\\\\").replace('"', '\\"') + '"'


PROTO_FUNCS = ["submit_call", "get_result", "get_next_result", "terminate", "serve", "run"]
STATE_NAMES = ("total_time_est", "queue", "slave_queue", "assigned", "results", "available")
KEEP_CALLS = ("comm.send", "comm.recv", "comm.Abort", "queue.append", "queue.remove",
              "assigned.pop", "get_result", "serve", "terminate", "abort", "object_to_call",
              "numpy.argmin")


def protocol_statements(func):
    """the statements of `func` that make up the protocol (communication, the master's
    bookkeeping, slave choice, control flow), in source order, each prefixed by the
    enclosing conditions (print / timing / statistics statements are dropped)."""
    out = []

    def relevant(node):
        if isinstance(node, (ast.Raise, ast.Break)):
            return True
        if isinstance(node, ast.Return):
            return True
        txt = ast.unparse(node)
        if isinstance(node, (ast.Assign, ast.AugAssign)):
            tgt = ast.unparse(node.targets[0] if isinstance(node, ast.Assign) else node.target)
            base = tgt.split("[")[0]
            if base in STATE_NAMES or base in ("slave", "source", "id", "result") \
                    or tgt.startswith("n_processed[source]") or tgt.startswith("(result"):
                return True
            if tgt.startswith("(name_to_call"):
                return True
        for c in ast.walk(node):
            if isinstance(c, ast.Call):
                fn = ast.unparse(c.func)
                if fn in KEEP_CALLS or fn.endswith(".append") and fn.split(".")[0].split("[")[0] in STATE_NAMES \
                        or fn.endswith(".remove") and fn.split("[")[0] in STATE_NAMES \
                        or fn.startswith('_globals['):
                    return True
        return False

    def short(node):
        if isinstance(node, ast.Raise):
            exc = node.exc
            if exc is None:
                return "raise"
            return "raise " + (ast.unparse(exc.func) if isinstance(exc, ast.Call) else ast.unparse(exc))
        return " ".join(ast.unparse(node).split())

    def walk(stmts, conds):
        for st in stmts:
            if isinstance(st, ast.If):
                t = " ".join(ast.unparse(st.test).split())
                if t in ("_verbose", "verbose"):
                    continue
                walk(st.body, conds + [t])
                walk(st.orelse, conds + ["not (" + t + ")"])
            elif isinstance(st, (ast.While, ast.For)):
                head = ("while " + ast.unparse(st.test)) if isinstance(st, ast.While) else \
                    ("for " + ast.unparse(st.target) + " in " + ast.unparse(st.iter))
                walk(st.body, conds + [head])
            elif isinstance(st, ast.Try):
                walk(st.body, conds)
                for hnd in st.handlers:
                    walk(hnd.body, conds + ["except " + (ast.unparse(hnd.type) if hnd.type else "")])
            elif isinstance(st, ast.Expr) and isinstance(st.value, ast.Constant):
                continue
            elif relevant(st):
                out.append(("[" + " & ".join(conds) + "] " if conds else "") + short(st))
    walk(func.body, [])
    return out


# --------------------------------------------------------------------------
# round 4: the per-chunk argument tuples of the three master loops and the way the chunk
# kernels subscript their parameters
# --------------------------------------------------------------------------
import re
import textwrap

KERNELS = {"arenas": ("py", "_mpi_nsi_arenas_betweenness"),
           "newman": ("pyx", "_mpi_newman_betweenness"),
           "nsinewman": ("pyx", "_mpi_nsi_newman_betweenness")}


def norm(node):
    return " ".join(ast.unparse(node).split())


def strip_cast(node):
    """to_cy(X, T) -> X"""
    if isinstance(node, ast.Call) and ast.unparse(node.func) == "to_cy" and node.args:
        return node.args[0]
    return node


def classify_value(node):
    """(base, mode) of an expression handed to a chunk kernel"""
    node = strip_cast(node)
    txt = norm(node)
    if txt == "None":
        return ("None", "none")
    m = re.fullmatch(r"(\w+)\[start_i:end_i(, :)?\]", txt)
    if m:
        return (m.group(1), "sliced")
    if re.fullmatch(r"\w+", txt) or re.fullmatch(r"-?\d+", txt):
        return (txt, "whole")
    return (txt, "expr")


def local_assignments(stmts, conds=()):
    """name -> [(condition chain, value node)] for plain assignments to names in `stmts`
    (descending into if/else, not into nested loops)"""
    res = {}
    for st in stmts:
        if isinstance(st, ast.Assign) and len(st.targets) == 1 and isinstance(st.targets[0], ast.Name):
            if isinstance(st.value, ast.IfExp):          # x = a if c else b
                t = norm(st.value.test)
                res.setdefault(st.targets[0].id, []).extend(
                    [(" & ".join(conds + (t,)), st.value.body),
                     (" & ".join(conds + ("not (" + t + ")",)), st.value.orelse)])
            else:
                res.setdefault(st.targets[0].id, []).append((" & ".join(conds), st.value))
        elif isinstance(st, ast.If):
            t = norm(st.test)
            for k, v in local_assignments(st.body, conds + (t,)).items():
                res.setdefault(k, []).extend(v)
            for k, v in local_assignments(st.orelse, conds + ("not (" + t + ")",)).items():
                res.setdefault(k, []).extend(v)
    return res


def resolve_args(arg_nodes, locals_):
    """every positional argument as its list of alternatives (condition, base, mode)"""
    out = []
    for a in arg_nodes:
        a = strip_cast(a)
        txt = norm(a)
        if txt in ("start_i", "end_i"):
            out.append([("", txt, "start" if txt == "start_i" else "end")])
        elif isinstance(a, ast.Name) and a.id in locals_:
            out.append([(c,) + classify_value(v) for c, v in locals_[a.id]])
        else:
            out.append([("",) + classify_value(a)])
    return out


def find_parent_chain(func, target):
    """list of ancestors of `target` inside `func` (outermost first)"""
    chain = []

    def rec(node, path):
        if node is target:
            chain.extend(path)
            return True
        for ch in ast.iter_child_nodes(node):
            if rec(ch, path + [node]):
                return True
        return False
    rec(func, [])
    return chain


def block_containing(parent, child_path):
    """the statement list of `parent` that contains the next node of the path"""
    for field in ("body", "orelse"):
        blk = getattr(parent, field, None)
        if isinstance(blk, list) and any(n in blk for n in child_path):
            return blk
    return []


def master_call_tables(f, kname):
    subs = [n for n in ast.walk(f) if isinstance(n, ast.Call) and ast.unparse(n.func) == "mpi.submit_call"]
    dist_callee, dist_args = "<none>", []
    if subs:
        c = subs[0]
        dist_callee = c.args[0].value if c.args and isinstance(c.args[0], ast.Constant) else norm(c.args[0])
        chain = find_parent_chain(f, c)
        loops = [n for n in chain if isinstance(n, ast.For)]
        loc = local_assignments(loops[-1].body) if loops else {}
        payload = c.args[1].elts if len(c.args) > 1 and isinstance(c.args[1], ast.Tuple) else []
        dist_args = resolve_args(payload, loc)
    serial = [n for n in ast.walk(f) if isinstance(n, ast.Call)
              and ast.unparse(n.func).split(".")[-1] == kname]
    serial_callee, serial_args, serial_conds = "<none>", [], []
    if serial:
        c = serial[0]
        serial_callee = norm(c.func)
        chain = find_parent_chain(f, c)
        # the innermost `if` whose else-branch holds the call: its block supplies the locals
        loc = {}
        for i, n in enumerate(chain):
            if isinstance(n, ast.If):
                blk = block_containing(n, chain[i + 1:] + [c])
                loc = local_assignments(blk)
        serial_args = resolve_args(c.args, loc)
        serial_conds = enclosing_ifs(f, lambda x: x is c)[0][0]
    return dist_callee, dist_args, serial_callee, serial_args, serial_conds


def pyx_kernel_as_python(src, kname):
    """the body of a typed-buffer Cython kernel re-read as Python: parameter names from the
    signature, the `int x = expr` initialisers of the cdef block as assignments, the
    statements from the first `for` on verbatim"""
    m = re.search(r"^def " + kname + r"\((.*?)\):\n", src, re.S | re.M)
    if not m:
        return [], None
    depth, cur, parts = 0, "", []
    for ch in m.group(1):
        if ch in "[(":
            depth += 1
        if ch in "])":
            depth -= 1
        if ch == "," and depth == 0:
            parts.append(cur)
            cur = ""
        else:
            cur += ch
    parts.append(cur)
    params = [p.split()[-1] for p in parts if p.strip()]
    rest = src[m.end():]
    nxt = re.search(r"^(def |cdef |cpdef |# \w+ =====)", rest, re.M)
    body = rest[:nxt.start()] if nxt else rest
    lines = body.split("\n")
    first_for = next(i for i, l in enumerate(lines) if re.match(r"    for ", l))
    inits = []
    head = "\n".join(lines[:first_for]).replace("\\\n", " ")
    for l in head.split("\n"):
        mm = re.match(r"\s+(?:int|double|ndarray\[[^\]]*\])\s+(\w+)\s*=\s*(.+)$", l)
        if mm:
            inits.append(f"    {mm.group(1)} = {' '.join(mm.group(2).split())}")
    code = "def k(" + ", ".join(params) + "):\n" + "\n".join(inits + lines[first_for:]) + "\n"
    return params, ast.parse(textwrap.dedent(code)).body[0]


def kernel_tables(params, kfunc):
    """loop header(s), subscripts of every parameter, guards, result writes, loop-carried
    locals, return statement of a chunk kernel given as a Python AST"""
    outer = None
    pre = []
    def find_loop(stmts):
        nonlocal outer
        for st in stmts:
            if outer is not None:
                return
            if isinstance(st, ast.For):
                outer = st
                return
            if isinstance(st, ast.Try):
                find_loop(st.body)
            elif isinstance(st, ast.Assign):
                pre.append(norm(st))
    find_loop(kfunc.body)
    if outer is None:
        return None
    loop = ["for " + norm(outer.target) + " in " + norm(outer.iter)]
    # index aliases defined at the top of the loop body from the loop variable (i_abs = ...)
    for st in outer.body:
        if isinstance(st, ast.Assign) and isinstance(st.targets[0], ast.Name) \
                and re.fullmatch(r"i_\w+", st.targets[0].id):
            loop.append(norm(st))
    loop = [x for x in pre if x.startswith("this_N")] + loop
    subs = {p: set() for p in params}
    guards = {p: set() for p in params}

    def visit(node, conds, in_sub_of=None):
        if isinstance(node, ast.If):
            t = norm(node.test)
            visit(node.test, conds)
            for b in node.body:
                visit(b, conds + [t])
            for b in node.orelse:
                visit(b, conds + ["not (" + t + ")"])
            return
        if isinstance(node, ast.Subscript) and isinstance(node.value, ast.Name) and node.value.id in subs:
            sl = node.slice
            first = sl.elts[0] if isinstance(sl, ast.Tuple) else sl
            subs[node.value.id].add(norm(first))
            guards[node.value.id].add(" & ".join(conds))
            visit(node.slice, conds)
            return
        if isinstance(node, ast.Name) and node.id in subs:
            subs[node.id].add("<whole>")
            guards[node.id].add(" & ".join(conds))
            return
        for ch in ast.iter_child_nodes(node):
            visit(ch, conds)
    for st in outer.body:
        visit(st, [])
    # result variable = first element of the returned / stored tuple
    ret = "<none>"
    resvar = None
    for n in ast.walk(kfunc):
        if isinstance(n, ast.Return) and isinstance(n.value, ast.Tuple) and ret == "<none>" \
                and len(n.value.elts) == 3:
            ret, resvar = "return " + norm(n.value), norm(n.value.elts[0])
        if isinstance(n, ast.Assign) and norm(n.targets[0]) == "result" and isinstance(n.value, ast.Tuple):
            ret, resvar = norm(n), norm(n.value.elts[0])
    outs = []
    for n in ast.walk(outer):
        if isinstance(n, (ast.Assign, ast.AugAssign)):
            tgt = n.targets[0] if isinstance(n, ast.Assign) else n.target
            base = tgt.value.id if isinstance(tgt, ast.Subscript) and isinstance(tgt.value, ast.Name) \
                else (tgt.id if isinstance(tgt, ast.Name) else None)
            if base == resvar:
                op = "=" if isinstance(n, ast.Assign) else \
                    {ast.Add: "+="}.get(type(n.op), "?=")
                outs.append(norm(tgt) + " " + op)
    # loop-carried locals: read in an iteration before being assigned in it
    assigned = set()
    for n in ast.walk(outer):
        if isinstance(n, ast.Name) and isinstance(n.ctx, ast.Store):
            assigned.add(n.id)
    bound_in_comp = set()
    for n in ast.walk(outer):
        if isinstance(n, ast.comprehension):
            for x in ast.walk(n.target):
                if isinstance(x, ast.Name):
                    bound_in_comp.add(x.id)
    carried = set()

    def reads(node, defined):
        for x in ast.walk(node):
            if isinstance(x, ast.Name) and isinstance(x.ctx, ast.Load) and x.id in assigned \
                    and x.id not in defined and x.id not in bound_in_comp:
                carried.add(x.id)

    def flow(stmts, defined):
        defined = set(defined)
        for st in stmts:
            if isinstance(st, ast.Assign):
                reads(st.value, defined)
                for t in st.targets:
                    if isinstance(t, ast.Name):
                        defined.add(t.id)
                    elif isinstance(t, ast.Tuple):
                        defined.update(e.id for e in t.elts if isinstance(e, ast.Name))
                    else:
                        reads(t, defined)
            elif isinstance(st, ast.AugAssign):
                reads(st.value, defined)
                if isinstance(st.target, ast.Name):
                    if st.target.id not in defined:
                        carried.add(st.target.id)
                else:
                    reads(st.target, defined)
            elif isinstance(st, ast.If):
                reads(st.test, defined)
                a = flow(st.body, defined)
                b = flow(st.orelse, defined)
                defined = a & b
            elif isinstance(st, ast.For):
                reads(st.iter, defined)
                inner = set(defined)
                inner.update(x.id for x in ast.walk(st.target) if isinstance(x, ast.Name))
                flow(st.body, inner)          # may run zero times: nothing new is defined after
            else:
                reads(st, defined)
        return defined
    flow(outer.body, {x.id for x in ast.walk(outer.target) if isinstance(x, ast.Name)})
    init = [x for x in pre if resvar and x.startswith(resvar + " = ")]
    return {"init": init, "loop": loop, "subs": {p: sorted(v) for p, v in subs.items()},
            "guards": {p: sorted(v) for p, v in guards.items()}, "out": outs, "ret": ret,
            "carried": sorted(carried - {resvar.split("[")[0] if resvar else ""}),
            "resvar": resvar or "<none>"}


def pool_kernel_tables(pyx, kname):
    """round 5 — the Cython kernel behind the multiprocessing split (`for j in targets:` with
    work arrays allocated once before the loop): for every array local whether the target loop
    leaves it alone (`readonly`), re-initialises it before the first use in every iteration
    (`reset`: `X.fill(c)` or `for l in range(N): X[l] = <expr without work arrays>` as the first
    top-level statement mentioning it), only adds to it at top level (`acc`), or none of these
    (`carried`); parameters written inside the loop; scalar locals read in an iteration before
    being assigned in it; loop header, accumulator initialisation and return statement."""
    params, kf = pyx_kernel_as_python(pyx, kname)
    none = {"params": params, "loop": "<no loop>", "arrays": [("<unknown>", "carried")], "pwritten": [],
            "carried": ["<unknown>"], "acc_init": "<none>", "ret": "<none>"}
    if kf is None or not params:
        return none
    arrays = {}
    for st in kf.body:
        if isinstance(st, ast.Assign) and isinstance(st.targets[0], ast.Name) \
                and isinstance(st.value, ast.Call) and norm(st.value.func) in ("np.zeros", "np.ones", "np.empty"):
            arrays[st.targets[0].id] = st.value
    outer = next((st for st in kf.body if isinstance(st, ast.For) and norm(st.iter) == params[-1]), None)
    if outer is None:
        return none

    def names(node):
        return {x.id for x in ast.walk(node) if isinstance(x, ast.Name)}

    def base(t):
        while isinstance(t, ast.Subscript):
            t = t.value
        return t.id if isinstance(t, ast.Name) else None

    def writes(node):
        w = set()
        for n in ast.walk(node):
            if isinstance(n, ast.Assign):
                for t in n.targets:
                    for e in (t.elts if isinstance(t, ast.Tuple) else [t]):
                        w.add(base(e))
            elif isinstance(n, ast.AugAssign):
                w.add(base(n.target))
            elif isinstance(n, ast.Call) and isinstance(n.func, ast.Attribute) \
                    and isinstance(n.func.value, ast.Name) and n.func.attr in ("fill", "sort", "resize", "put"):
                w.add(n.func.value.id)
        w.discard(None)
        return w
    written = writes(outer)
    scalars = {x for x in written if x not in arrays and x not in params}
    work = {x for x in arrays if x in written}

    def classify(X):
        if X not in written:
            return "readonly"
        mentions = [st for st in outer.body if X in names(st)]
        # accumulator: only `X += <expr without X>` at the top level of the loop body
        if all(isinstance(st, ast.AugAssign) and isinstance(st.target, ast.Name) and st.target.id == X
               and isinstance(st.op, ast.Add) and X not in names(st.value) for st in mentions):
            return "acc"
        st = mentions[0]
        if isinstance(st, ast.Expr) and isinstance(st.value, ast.Call) \
                and norm(st.value.func) == X + ".fill" and len(st.value.args) == 1 \
                and not (names(st.value.args[0]) & (scalars | work)):
            return "reset"
        size_arg = norm(arrays[X].args[0]) if arrays[X].args else "?"
        if isinstance(st, ast.For) and isinstance(st.target, ast.Name) \
                and norm(st.iter) == f"range({size_arg})" and len(st.body) == 1 \
                and isinstance(st.body[0], ast.Assign) \
                and any(norm(t) == f"{X}[{st.target.id}]" for t in st.body[0].targets) \
                and not (names(st.body[0].value) & (work | (scalars - {st.target.id}))):
            return "reset"
        return "carried"
    arr = [(X, classify(X)) for X in arrays]
    pwritten = sorted(x for x in written if x in params)
    # scalar locals: read before assigned within one iteration (def-before-use, `while` included)
    carried = set()
    loopvars = set()
    for n in ast.walk(outer):
        if isinstance(n, ast.For):
            loopvars |= names(n.target)

    def reads(node, defined):
        for x in ast.walk(node):
            if isinstance(x, ast.Name) and isinstance(x.ctx, ast.Load) and x.id in (scalars | loopvars) \
                    and x.id not in defined:
                carried.add(x.id)

    def flow(stmts, defined):
        defined = set(defined)
        for st in stmts:
            if isinstance(st, ast.Assign):
                reads(st.value, defined)
                for t in st.targets:
                    for e in (t.elts if isinstance(t, ast.Tuple) else [t]):
                        if isinstance(e, ast.Name):
                            defined.add(e.id)
                        else:
                            reads(e, defined)
            elif isinstance(st, ast.AugAssign):
                reads(st.value, defined)
                if isinstance(st.target, ast.Name):
                    if st.target.id not in defined and st.target.id in scalars:
                        carried.add(st.target.id)
                else:
                    reads(st.target, defined)
            elif isinstance(st, ast.If):
                reads(st.test, defined)
                defined = flow(st.body, defined) & flow(st.orelse, defined)
            elif isinstance(st, ast.For):
                reads(st.iter, defined)
                flow(st.body, defined | names(st.target))
            elif isinstance(st, ast.While):
                reads(st.test, defined)
                flow(st.body, defined)
            else:
                reads(st, defined)
        return defined
    flow(outer.body, names(outer.target))
    rets = [norm(n) for n in ast.walk(kf) if isinstance(n, ast.Return)]
    accs = [X for X, c in arr if c == "acc"]
    acc_init = norm(arrays[accs[0]]) if len(accs) == 1 else "<none>"
    return {"params": params, "loop": "for " + norm(outer.target) + " in " + norm(outer.iter),
            "arrays": arr, "pwritten": pwritten, "carried": sorted(carried), "acc_init": acc_init,
            "ret": "; ".join(rets) if rets else "<none>"}


def triples(alts):
    return "[" + ", ".join("(" + ", ".join(lit(x) for x in t) + ")" for t in alts) + "]"


def emit_chunk_tables(out, cls, src_dir):
    pyx = open(os.path.join(src_dir, "core/_ext/numerics.pyx")).read()
    for short, name in METHODS:
        f = [n for n in cls.body if isinstance(n, ast.FunctionDef) and n.name == name][0]
        kind, kname = KERNELS[short]
        if kind == "py":
            kf = [n for n in cls.body if isinstance(n, ast.FunctionDef) and n.name == kname]
            params = [a.arg for a in kf[0].args.args] if kf else []
            kt = kernel_tables(params, kf[0]) if kf else None
        else:
            params, kfn = pyx_kernel_as_python(pyx, kname)
            kt = kernel_tables(params, kfn) if kfn is not None else None
        if kt is None:
            kt = {"init": [], "loop": ["<no loop>"], "subs": {}, "guards": {}, "out": [], "ret": "<none>",
                  "carried": ["<unknown>"], "resvar": "<none>"}
        dc, da, sc, sa, sconds = master_call_tables(f, kname)
        out.append(f"def {short}_kernel_params : List String := [{', '.join(lit(p) for p in params)}]")
        out.append(f"def {short}_kernel_loop : List String := [{', '.join(lit(p) for p in kt['loop'])}]")
        out.append(f"def {short}_kernel_subs : List (String × List String) := [" + ", ".join(
            f"({lit(p)}, [{', '.join(lit(x) for x in kt['subs'].get(p, []))}])" for p in params) + "]")
        out.append(f"def {short}_kernel_guards : List (String × List String) := [" + ", ".join(
            f"({lit(p)}, [{', '.join(lit(x) for x in kt['guards'].get(p, []))}])" for p in params) + "]")
        out.append(f"def {short}_kernel_init : List String := [{', '.join(lit(p) for p in kt['init'])}]")
        out.append(f"def {short}_kernel_out : List String := [{', '.join(lit(p) for p in kt['out'])}]")
        out.append(f"def {short}_kernel_return : String := {lit(kt['ret'])}")
        out.append(f"def {short}_kernel_carried : List String := [{', '.join(lit(p) for p in kt['carried'])}]")
        out.append(f"def {short}_dist_callee : String := {lit(dc)}")
        out.append(f"def {short}_serial_callee : String := {lit(sc)}")
        out.append(f"def {short}_serial_conditions : List String := [{', '.join(lit(c) for c in sconds)}]")
        out.append(f"def {short}_dist_args : List (List (String × String × String)) := [" +
                   ", ".join(triples(a) for a in da) + "]")
        out.append(f"def {short}_serial_args : List (List (String × String × String)) := [" +
                   ", ".join(triples(a) for a in sa) + "]")
        out.append("")


def main():
    src = open(os.path.join(REPO, "src/pyunicorn/core/network.py")).read()
    tree = ast.parse(src)
    cls = [n for n in tree.body if isinstance(n, ast.ClassDef) and n.name == "Network"][0]
    out = ["/- GENERATED by translate/gen_C19.py from the current /repo working tree — do not edit. -/",
           "namespace Pyunicorn.Generated.StructC19", ""]
    for short, name in METHODS:
        f = [n for n in cls.body if isinstance(n, ast.FunctionDef) and n.name == name][0]
        subs = enclosing_ifs(f, lambda c: ast.unparse(c.func) == "mpi.submit_call")
        gets = enclosing_ifs(f, lambda c: ast.unparse(c.func) == "mpi.get_result")
        sc = subs[0][0] if subs else ["<no submit_call>"]
        gc = gets[0][0] if gets else ["<no get_result>"]
        sid = [ast.unparse(k.value) for k in subs[0][1].keywords if k.arg == "id"] if subs else []
        gid = [ast.unparse(a) for a in gets[0][1].args] if gets else []
        asm = "none"
        for n in ast.walk(f):
            if isinstance(n, ast.Assign) and isinstance(n.targets[0], ast.Subscript) \
                    and ast.unparse(n.targets[0]).startswith("component_betweenness[start_i:end_i]"):
                asm = "slice"
            if isinstance(n, ast.AugAssign) and ast.unparse(n.target) == "component_betweenness" \
                    and ast.unparse(n.value) == "this_betweenness":
                asm = "add"
        out.append(f"def {short}_submit_conditions : List String := [{', '.join(lit(c) for c in sc)}]")
        out.append(f"def {short}_get_conditions : List String := [{', '.join(lit(c) for c in gc)}]")
        out.append(f"def {short}_submit_id : List String := [{', '.join(lit(c) for c in sid)}]")
        out.append(f"def {short}_get_id : List String := [{', '.join(lit(c) for c in gid)}]")
        out.append(f"def {short}_n_submit_sites : Nat := {len(subs)}")
        out.append(f"def {short}_assembly : String := {lit(asm)}")
        out.append("")
    # ---- round 4: per-chunk argument tuples and kernel subscripts -----------------------
    emit_chunk_tables(out, cls, os.path.join(REPO, "src/pyunicorn"))
    # ---- multiprocessing split of `targets` in Network._nsi_betweenness ----------------
    f = [n for n in cls.body if isinstance(n, ast.FunctionDef) and n.name == "_nsi_betweenness"][0]
    split_call, map_call, reduce_call, serial_call, pool_ctor = "<none>", "<none>", "<none>", "<none>", "<none>"
    pool_conds = []
    for conds, c in enclosing_ifs(f, lambda c: ast.unparse(c.func) == "np.array_split"):
        split_call, pool_conds = ast.unparse(c), conds
    for conds, c in enclosing_ifs(f, lambda c: ast.unparse(c.func) == "pool.map"):
        map_call = ast.unparse(c)
    for n in ast.walk(f):
        if isinstance(n, ast.Assign) and ast.unparse(n.targets[0]) == "betw_w":
            v = n.value
            if isinstance(v, ast.Call) and ast.unparse(v.func) == "np.sum":
                reduce_call = "np.sum(<map>, " + ", ".join(
                    f"{k.arg}={ast.unparse(k.value)}" for k in v.keywords) + ")"
            elif isinstance(v, ast.Call) and ast.unparse(v.func) == "worker":
                serial_call = ast.unparse(v)
            else:
                reduce_call = ast.unparse(v)
        if isinstance(n, ast.Assign) and ast.unparse(n.targets[0]) == "batches":
            split_call = ast.unparse(n.value)
        if isinstance(n, ast.Assign) and ast.unparse(n.targets[0]) == "worker":
            pool_ctor = ast.unparse(n.value)
    out.append(f"def pool_split : String := {lit(split_call)}")
    out.append(f"def pool_map : String := {lit(map_call)}")
    out.append(f"def pool_reduce : String := {lit(reduce_call)}")
    out.append(f"def pool_serial : String := {lit(serial_call)}")
    out.append(f"def pool_worker : String := {lit(pool_ctor)}")
    out.append(f"def pool_conditions : List String := [{', '.join(lit(c) for c in pool_conds)}]")
    # round 5: the kernel behind `worker` (state of its work arrays across the target loop)
    pyx = open(os.path.join(REPO, "src/pyunicorn/core/_ext/numerics.pyx")).read()
    kname = "<none>"
    bound = 0
    for n in ast.walk(f):
        if isinstance(n, ast.Assign) and ast.unparse(n.targets[0]) == "worker" \
                and isinstance(n.value, ast.Call) and ast.unparse(n.value.func) == "partial" and n.value.args:
            kname = ast.unparse(n.value.args[0])
            bound = len(n.value.args) - 1
    pk = pool_kernel_tables(pyx, kname)
    out.append(f"def pool_kernel_name : String := {lit(kname)}")
    out.append(f"def pool_kernel_bound_args : Nat := {bound}")
    out.append(f"def pool_kernel_params : List String := [{', '.join(lit(x) for x in pk['params'])}]")
    out.append(f"def pool_kernel_loop : String := {lit(pk['loop'])}")
    out.append("def pool_kernel_arrays : List (String × String) := [" +
               ", ".join(f"({lit(a)}, {lit(c)})" for a, c in pk["arrays"]) + "]")
    out.append(f"def pool_kernel_params_written : List String := [{', '.join(lit(x) for x in pk['pwritten'])}]")
    out.append(f"def pool_kernel_scalar_carried : List String := [{', '.join(lit(x) for x in pk['carried'])}]")
    out.append(f"def pool_kernel_acc_init : String := {lit(pk['acc_init'])}")
    out.append(f"def pool_kernel_return : String := {lit(pk['ret'])}")
    out.append("")
    # ---- protocol statements of utils/mpi.py ----------------------------------------------
    msrc = open(os.path.join(REPO, "src/pyunicorn/utils/mpi.py")).read()
    mtree = ast.parse(msrc)
    funcs = {}
    for n in ast.walk(mtree):
        if isinstance(n, ast.FunctionDef) and n.name in PROTO_FUNCS and n.name not in funcs:
            funcs[n.name] = n
    for name in PROTO_FUNCS:
        stmts = protocol_statements(funcs[name]) if name in funcs else ["<missing>"]
        out.append(f"def mpi_{name} : List String := [")
        out.append(",\n".join("  " + lit(x) for x in stmts))
        out.append("]")
        out.append("")
    # module-level initialisation of the master's tables
    inits = []
    for n in ast.walk(mtree):
        if isinstance(n, ast.Assign) and isinstance(n.targets[0], (ast.Name, ast.Subscript)):
            tgt = ast.unparse(n.targets[0])
            if tgt.split("[")[0] in ("total_time_est", "queue", "assigned", "slave_queue", "am_master",
                                     "n_slaves", "size", "rank") and n.col_offset <= 4:
                inits.append(" ".join(ast.unparse(n).split()))
    out.append("def mpi_init : List String := [")
    out.append(",\n".join("  " + lit(x) for x in inits))
    out.append("]")
    out.append("")
    out.append("end Pyunicorn.Generated.StructC19")
    txt = "\n".join(out) + "\n"
    if not os.path.exists(OUT) or open(OUT).read() != txt:
        open(OUT, "w").write(txt)


if __name__ == "__main__":
    main()
