#!/usr/bin/env python3
"""Structural translator for C15 (round 4): regenerates lean/Pyunicorn/Generated/StructC15.lean from
the *current* working tree on every run.

  Surrogates.correlated_noise_surrogates  -> fourierBody : List FStep
        the body of the method statement by statement (docstring and the `if self.silence_level …:
        print(…)` block skipped).  Local names are tracked by role, not by spelling: `S` is the name
        bound to `self.original_data_fft()`, `L` the name bound to `S.shape[1]`, `P` the name bound to
        `random.uniform(low=0, high=2 * np.pi, size=(self.N, L))`.  Recognised statements
        (Model/SurrogatesMethod.lean, `FStep`):
            S = self.original_data_fft()                         fetch
            L = S.shape[1]                                       lenPhase
            P = random.uniform(low=0, high=2*np.pi, size=(self.N, L))   drawPhases
            S = S * np.exp(1j * P)   |   S *= np.exp(1j * P)     mulPhases copy | inplace
            S[:, k] = S[:, k].real      (k an integer literal)   realAt k
            return np.ascontiguousarray(np.real(np.fft.irfft(S, n=self.n_time, axis=1)))   irfft
        anything else                                            unknown
  CouplingAnalysisPurePython.correlatedNoiseSurrogates -> cnsMirrorAxis : Nat
        the axis along which the conjugated positive frequencies are reversed before they are
        written to the negative frequencies (numpy.fliplr = 1 = frequency axis; numpy.flipud = 0);
        cnsInPlace : Bool (the phases are multiplied into the memoised array itself).

The model executes the generated body (driver) and `Properties/C15.lean` proves the spectrum clause
about it; a body the theorem does not cover (an `unknown`, a `realAt` …) breaks the proof build and
is reported as a broken tie, the failing input is the oracle's to find.
"""
import ast
import os
import sys

REPO = os.environ.get("VERIF_REPO", "/repo")
OUT = sys.argv[1]


def method(rel, cls, name):
    tree = ast.parse(open(os.path.join(REPO, rel)).read())
    for c in tree.body:
        if isinstance(c, ast.ClassDef) and c.name == cls:
            for f in c.body:
                if isinstance(f, ast.FunctionDef) and f.name == name:
                    return f
    raise SystemExit(f"gen_C15: {cls}.{name} not found in {rel}")


def u(n):
    return ast.unparse(n)


def fourier_body():
    fn = method("src/pyunicorn/timeseries/surrogates.py", "Surrogates", "correlated_noise_surrogates")
    S = L = P = None
    steps, texts = [], []
    for st in fn.body:
        if isinstance(st, ast.Expr) and isinstance(st.value, ast.Constant) and isinstance(st.value.value, str):
            continue                                    # docstring
        if isinstance(st, ast.If) and "silence_level" in u(st.test) and \
                all(isinstance(b, ast.Expr) and u(b).startswith("print(") for b in st.body) and not st.orelse:
            continue
        txt = u(st)
        step = "FStep.unknown"
        if isinstance(st, ast.Assign) and len(st.targets) == 1 and isinstance(st.targets[0], ast.Name):
            t, v = st.targets[0].id, u(st.value)
            if v == "self.original_data_fft()":
                S, step = t, "FStep.fetch"
            elif S and v == f"{S}.shape[1]":
                L, step = t, "FStep.lenPhase"
            elif L and v in (f"random.uniform(low=0, high=2 * np.pi, size=(self.N, {L}))",
                             f"random.uniform(low=0.0, high=2 * np.pi, size=(self.N, {L}))"):
                P, step = t, "FStep.drawPhases"
            elif S and P and t == S and v in (f"{S} * np.exp(1j * {P})", f"np.exp(1j * {P}) * {S}"):
                step = "(FStep.mulPhases Mode.copy)"
        elif isinstance(st, ast.AugAssign) and isinstance(st.op, ast.Mult) and S and P and \
                u(st.target) == S and u(st.value) == f"np.exp(1j * {P})":
            step = "(FStep.mulPhases Mode.inplace)"
        elif isinstance(st, ast.Assign) and len(st.targets) == 1 and S and \
                isinstance(st.targets[0], ast.Subscript):
            tg = u(st.targets[0])
            for k in range(-4, 5):
                if tg == f"{S}[:, {k}]" and u(st.value) == f"{S}[:, {k}].real":
                    step = f"(FStep.realAt ({k}))"
        elif isinstance(st, ast.Return) and S and st.value is not None and u(st.value) in (
                f"np.ascontiguousarray(np.real(np.fft.irfft({S}, n=self.n_time, axis=1)))",
                f"np.real(np.fft.irfft({S}, n=self.n_time, axis=1))",
                f"np.fft.irfft({S}, n=self.n_time, axis=1)"):
            step = "FStep.irfft"
        steps.append(step)
        texts.append(txt.replace("\n", " ")[:110])
    return steps, texts


def coupling_facts():
    fn = method("src/pyunicorn/funcnet/coupling_analysis_pure_python.py", "CouplingAnalysisPurePython",
                "correlatedNoiseSurrogates")
    axes = set()
    for st in ast.walk(fn):
        if isinstance(st, ast.Assign) and isinstance(st.targets[0], ast.Subscript) and \
                u(st.targets[0]).startswith("surrogates[") and "conjugate" in u(st.value):
            v = st.value
            if isinstance(v, ast.Call) and u(v.func) in ("numpy.fliplr", "np.fliplr"):
                axes.add(1)
            elif isinstance(v, ast.Call) and u(v.func) in ("numpy.flipud", "np.flipud"):
                axes.add(0)
            elif u(v).endswith("[:, ::-1]"):
                axes.add(1)
            else:
                axes.add(99)
    axis = axes.pop() if len(axes) == 1 else 99
    inplace = any(isinstance(st, ast.AugAssign) and isinstance(st.op, ast.Mult) and
                  u(st.target).startswith("surrogates[") for st in ast.walk(fn))
    return axis, inplace


steps, texts = fourier_body()
axis, inplace = coupling_facts()
with open(OUT, "w") as f:
    f.write("import Pyunicorn.Model.SurrogatesMethod\n"
            "/-! GENERATED by translate/gen_C15.py from the current source — do not edit. -/\n"
            "namespace Pyunicorn.Generated.StructC15\nopen Pyunicorn.Surrogates\n\n")
    f.write("/-- `Surrogates.correlated_noise_surrogates`, statement by statement:\n")
    for s, t in zip(steps, texts):
        f.write(f"  * `{t}`\n")
    f.write("-/\ndef fourierBody : List FStep :=\n  [" + ",\n   ".join(steps) + "]\n\n")
    f.write("/-- axis along which `CouplingAnalysisPurePython.correlatedNoiseSurrogates` reverses the conjugated\n"
            "positive frequencies (1 = frequency axis) -/\n"
            f"def cnsMirrorAxis : Nat := {axis}\n\n"
            "/-- the phases are multiplied into the memoised FFT itself -/\n"
            f"def cnsInPlace : Bool := {'true' if inplace else 'false'}\n\n"
            "end Pyunicorn.Generated.StructC15\n")
