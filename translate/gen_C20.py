#!/usr/bin/env python3
"""Structural facts about the raw-pointer kernels of pyunicorn, regenerated from the
current working tree into lean/Pyunicorn/Generated/StructC20.lean (C20).

  A. per Cython wrapper that hands `PyArray_DATA` pointers to a C routine
     (`<r>_allocs`, `<r>_ptrargs`, `<r>_cptrs`, `<r>_bufparams`, `<r>_scalarargs`,
     `<r>_cscalars`): the arrays it allocates (shape expression and dtype item size), the
     pointer arguments of the call in order with the pointee width of each cast, the
     pointer parameters of the C function with the pointee width of their declared type,
     the scalar arguments in call order and the C scalar parameters.
  B. per C routine `<r>_sites`: every array subscript `a[e]` and every pointer formed
     from an array parameter by closed-form arithmetic `p = a + e` — the expression `e`,
     all its integer sub-expressions, the width of the C integer type it is evaluated
     in, and the ranges of the enclosing `for` loops.
  C. census: the Cython directives of setup.py, local overrides in the four
     numerics.pyx, and every function of the four numerics.pyx that uses a raw pointer.

The theorems of Properties/C20.lean are stated about these generated definitions.
The translation is purely syntactic; anything it cannot read raises (the check then
reports that the obligation can no longer be generated).
"""
import ast
import os
import re
import sys

REPO = os.environ.get("VERIF_REPO", "/repo")
OUT = sys.argv[1]
SRC = os.path.join(REPO, "src", "pyunicorn")

ROUTINES = [
    # lean prefix, package, Cython wrapper, C function
    ("mi", "climate", "mutual_information", "_mutual_information"),
    ("spearman", "climate", "spearman_corr", "_spearman_corr"),
    ("pearson", "timeseries", "_test_pearson_correlation", "_test_pearson_correlation_fast"),
    ("tmi", "timeseries", "_test_mutual_information", "_test_mutual_information_fast"),
    ("vcfb", "core", "_vertex_current_flow_betweenness", "_vertex_current_flow_betweenness_fast"),
    ("ecfb", "core", "_edge_current_flow_betweenness", "_edge_current_flow_betweenness_fast"),
]
PKGS = ["core", "climate", "funcnet", "timeseries"]

CWIDTH = {"float": 4, "double": 8, "long": 8, "int": 4, "signed char": 1, "char": 1,
          "unsigned char": 1, "short": 2, "unsigned int": 4}
INTBITS = {"int": 32, "long": 64, "unsigned int": 32, "short": 16}


class Untranslatable(Exception):
    pass


def lit(s):
    return '"' + s.replace("\\", "\\\\").replace('"', '\\"') + '"'


# --------------------------------------------------------------------------- types

def type_tables():
    """item sizes of the Cython ctypedefs (types.pxd) and of the dtype names (types.py)"""
    cy, py = {}, {}
    base = {"int8": 1, "int16": 2, "int32": 4, "int64": 8, "float32": 4, "float64": 8}
    for line in open(os.path.join(SRC, "core", "_ext", "types.pxd")):
        m = re.match(r"\s*ctypedef\s+([\w.]+)\s+(\w+)\s*$", line)
        if m:
            src, name = m.groups()
            if src.startswith("cnp.") and src[4:-2] in base:
                cy[name] = base[src[4:-2]]
            elif src in cy:
                cy[name] = cy[src]
    cy.update({"long": 8, "int": 4, "float": 4, "double": 8})
    for line in open(os.path.join(SRC, "core", "_ext", "types.py")):
        m = re.match(r"(\w+)\s*=\s*([\w.]+)\s*$", line)
        if m:
            name, src = m.groups()
            if src.startswith("np.") and src[3:] in base:
                py[name] = base[src[3:]]
            elif src in py:
                py[name] = py[src]
    return cy, py


# --------------------------------------------------------------------------- pyx wrappers

def split_top(s):
    out, depth, cur = [], 0, ""
    for ch in s:
        if ch in "([<" and not (ch == "<" and False):
            depth += ch in "(["
        if ch in ")]":
            depth -= 1
        if ch == "," and depth == 0:
            out.append(cur.strip())
            cur = ""
        else:
            cur += ch
    if cur.strip():
        out.append(cur.strip())
    return out


def pyx_functions(text):
    """top-level `def` functions of a .pyx: name -> source text"""
    res = {}
    starts = [(m.start(), m.group(1)) for m in re.finditer(r"^def\s+(\w+)\s*\(", text, re.M)]
    ends = [m.start() for m in re.finditer(r"^(def|cdef|ctypedef|cpdef|# [\w ]+=+)", text, re.M)]
    for pos, name in starts:
        nxt = min([e for e in ends if e > pos] + [len(text)])
        res[name] = text[pos:nxt]
    return res


def balanced(text, start):
    """text[start] == '(' -> content up to the matching ')'"""
    depth = 0
    for k in range(start, len(text)):
        if text[k] == "(":
            depth += 1
        elif text[k] == ")":
            depth -= 1
            if depth == 0:
                return text[start + 1:k]
    raise Untranslatable("unbalanced parentheses")


def wrapper_facts(pkg, wrapper, cfunc, cy, py):
    text = open(os.path.join(SRC, pkg, "_ext", "numerics.pyx")).read()
    funcs = pyx_functions(text)
    if wrapper not in funcs:
        raise Untranslatable(f"{pkg}/numerics.pyx: no def {wrapper}")
    body = funcs[wrapper].replace("\\\n", " ")
    sig = balanced(body, body.index("("))
    bufparams, intparams, order = [], [], []
    for p in split_top(sig):
        p = " ".join(p.split())
        m = re.match(r"ndarray\[(\w+), ndim=(\d)(, mode='c')?\] (\w+)( not None)?$", p)
        if m:
            if m.group(1) not in cy:
                raise Untranslatable(f"unknown buffer type {m.group(1)}")
            bufparams.append((m.group(4), cy[m.group(1)], int(m.group(2)), bool(m.group(3))))
            order.append((m.group(4), "buf"))
            continue
        m = re.match(r"(int|long) (\w+)$", p)
        if m:
            intparams.append(m.group(2))
            order.append((m.group(2), "int"))
            continue
        m = re.match(r"(float|double|\w+_t) (\w+)$", p)
        if m:
            order.append((m.group(2), "float"))
            continue
        raise Untranslatable(f"{wrapper}: parameter {p!r}")
    flat = " ".join(body.split())
    allocs = []
    for m in re.finditer(r"(\w+) = np\.(zeros|empty)\( ?\(([^()]*)\), dtype=(\w+)\)", flat):
        name, _, dims, dt = m.groups()
        if dt not in py:
            raise Untranslatable(f"unknown dtype {dt}")
        dims = [d.strip() for d in dims.split(",") if d.strip()]
        for d in dims:
            if not re.match(r"^\w+$", d):
                raise Untranslatable(f"shape entry {d!r}")
        allocs.append((name, dims, py[dt]))
    k = flat.find(cfunc + "(")
    if k < 0:
        raise Untranslatable(f"{wrapper}: no call of {cfunc}")
    args = split_top(balanced(flat, k + len(cfunc)))
    ptrargs, scalarargs = [], []
    for a in args:
        m = re.match(r"<(\w+) ?\*> cnp\.PyArray_DATA\((\w+)\)$", a)
        if m:
            if m.group(1) not in cy:
                raise Untranslatable(f"unknown cast type {m.group(1)}")
            ptrargs.append((m.group(2), cy[m.group(1)]))
        elif re.match(r"^\w+$", a):
            scalarargs.append(a)
        else:
            raise Untranslatable(f"{wrapper}: argument {a!r}")
    # every np.zeros/np.empty of the wrapper must have been read
    if len(re.findall(r"np\.(zeros|empty)\(", flat)) != len(allocs):
        raise Untranslatable(f"{wrapper}: an allocation could not be read")
    # explicit shape tests of the wrapper: `<buf>.shape[k] != <int param>` (in an `if ...: raise`)
    cychecks = [(a, int(k), n) for a, k, n in re.findall(r"(\w+)\.shape\[(\d)\] != (\w+)", flat)
                if re.search(r"if \(?[^:]*" + re.escape(f"{a}.shape[{k}] != {n}") + r"[^:]*\)?: raise", flat)]
    return dict(bufparams=bufparams, intparams=intparams, allocs=allocs, ptrargs=ptrargs,
                scalarargs=scalarargs, order=order, cychecks=cychecks)


# --------------------------------------------------------------------------- C routines

def strip_comments(s):
    s = re.sub(r"/\*.*?\*/", lambda m: re.sub(r"[^\n]", " ", m.group(0)), s, flags=re.S)
    s = re.sub(r"//[^\n]*", "", s)
    return s.replace("\\\n", " \n")


def c_function(pkg, cfunc):
    text = strip_comments(open(os.path.join(SRC, pkg, "_ext", "src_numerics.c")).read())
    m = re.search(r"^(void|double)\s+" + re.escape(cfunc) + r"\s*\(", text, re.M)
    if not m:
        raise Untranslatable(f"{pkg}/src_numerics.c: no {cfunc}")
    sig = balanced(text, m.end() - 1)
    k = text.index("{", m.end())
    depth, e = 0, k
    for e in range(k, len(text)):
        if text[e] == "{":
            depth += 1
        elif text[e] == "}":
            depth -= 1
            if depth == 0:
                break
    line0 = text[:k].count("\n") + 1
    return sig, text[k:e + 1], line0


def c_params(sig):
    ptrs, scalars, types = [], [], {}
    for p in split_top(" ".join(sig.split())):
        m = re.match(r"([\w ]+?) ?(\*)? ?(\w+)$", p)
        if not m:
            raise Untranslatable(f"C parameter {p!r}")
        ty, star, name = m.group(1).strip(), m.group(2), m.group(3)
        if star:
            if ty not in CWIDTH:
                raise Untranslatable(f"C pointee type {ty!r}")
            ptrs.append((name, CWIDTH[ty]))
        else:
            scalars.append(name)
            types[name] = ty
    return ptrs, scalars, types


def lean_expr(node):
    if isinstance(node, ast.BinOp) and isinstance(node.op, (ast.Add, ast.Sub, ast.Mult)):
        op = {ast.Add: "+", ast.Sub: "-", ast.Mult: "*"}[type(node.op)]
        return f"({lean_expr(node.left)} {op} {lean_expr(node.right)})"
    if isinstance(node, ast.Name):
        return node.id
    if isinstance(node, ast.Constant) and isinstance(node.value, int):
        return str(node.value)
    raise Untranslatable("expression " + ast.dump(node))


def subexprs(node, acc):
    if isinstance(node, ast.BinOp):
        subexprs(node.left, acc)
        subexprs(node.right, acc)
        acc.append(lean_expr(node))
    return acc


def names_of(node):
    return [n.id for n in ast.walk(node) if isinstance(n, ast.Name)]


def c_sites(pkg, cfunc):
    sig, body, line0 = c_function(pkg, cfunc)
    ptrs, scalars, types = c_params(sig)
    ptrnames = {p for p, _ in ptrs}
    # local declarations of integer variables (and of alloca'd / local pointer arrays)
    for m in re.finditer(r"\b(unsigned int|int|long)\s+([^;(){}]+);", body):
        for d in m.group(2).split(","):
            name = d.split("=")[0].strip()
            if re.match(r"^\w+$", name):
                types[name] = m.group(1)
    for m in re.finditer(r"for\s*\(\s*(int|long)\s+(\w+)", body):
        types[m.group(2)] = m.group(1)
    local_arrays = set()
    for m in re.finditer(r"\*\s*(\w+)\s*=\s*ALLOCA\(", body):
        local_arrays.add(m.group(1))
    sites, loopvars = [], []
    stack = []         # entries: None (plain block) or (var, lo, op, hi)
    k, n = 0, len(body)
    pending = None
    while k < n:
        ch = body[k]
        m = re.compile(r"for\s*\(").match(body, k)
        if m and (k == 0 or not (body[k - 1].isalnum() or body[k - 1] == "_")):
            hdr = balanced(body, m.end() - 1)
            parts = [p.strip() for p in hdr.split(";")]
            if len(parts) != 3:
                raise Untranslatable(f"for header {hdr!r}")
            mi = re.match(r"(?:int\s+|long\s+)?(\w+)\s*=\s*(.+)$", parts[0])
            mc = re.match(r"(\w+)\s*(<=|<)\s*(.+)$", parts[1])
            mu = re.match(r"(\w+)\s*\+\+$", parts[2])
            if not (mi and mc and mu) or len({mi.group(1), mc.group(1), mu.group(1)}) != 1:
                raise Untranslatable(f"for header {hdr!r}")
            pending = (mi.group(1), mi.group(2).strip(), mc.group(2), mc.group(3).strip())
            if pending[0] not in loopvars:
                loopvars.append(pending[0])
            k = m.end() + len(hdr) + 1
            # the loop body must be a braced block
            rest = body[k:].lstrip()
            if not rest.startswith("{"):
                raise Untranslatable(f"for loop without braces: {hdr!r}")
            continue
        if ch == "{":
            stack.append(pending)
            pending = None
        elif ch == "}":
            stack.pop()
        else:
            line = line0 + body[:k].count("\n")
            ms = re.compile(r"(\w+)\s*\[").match(body, k)
            if ms and (k == 0 or not (body[k - 1].isalnum() or body[k - 1] == "_")):
                arr = ms.group(1)
                depth, e = 0, ms.end() - 1
                for e in range(ms.end() - 1, n):
                    depth += body[e] == "["
                    depth -= body[e] == "]"
                    if depth == 0:
                        break
                expr = body[ms.end():e]
                if arr in ptrnames or arr in local_arrays:
                    sites.append(("sub", arr, " ".join(expr.split()), list(stack), line))
                k = ms.end() - 1
            mp = re.compile(r"(\w+)\s*=\s*(\w+)\s*\+\s*([^;]+);").match(body, k)
            if mp and (k == 0 or not (body[k - 1].isalnum() or body[k - 1] in "_+-*/")) \
                    and mp.group(2) in ptrnames:
                sites.append(("base", mp.group(2), " ".join(mp.group(3).split()), list(stack),
                              line))
        k += 1
    res = []
    for kind, arr, expr, st, line in sites:
        try:
            node = ast.parse(expr, mode="eval").body
            lean_expr(node)
        except (SyntaxError, Untranslatable):
            if kind == "sub":
                raise Untranslatable(f"{cfunc}: subscript {arr}[{expr}]")
            res.append(("skipped", arr, expr, [], [], 0, line))   # e.g. `hist + in_bins + *p`
            continue
        loops = [s for s in st if s is not None]
        known = set(scalars) | {l[0] for l in loops}
        if any(v not in known for v in names_of(node)):
            if kind == "sub":
                raise Untranslatable(f"{cfunc}: subscript {arr}[{expr}] uses a running variable")
            res.append(("skipped", arr, expr, [], [], 0, line))   # running offsets (in_bins, ...)
            continue
        bits = max([INTBITS.get(types.get(v, "int"), 32) for v in names_of(node)] + [32])
        res.append((kind, arr, lean_expr(node), subexprs(node, []), loops, bits, line))
    params = [s for s in scalars if types[s] in INTBITS] + [v for v in loopvars if v not in scalars]
    return res, params, ptrs, scalars


def guard(loops):
    if not loops:
        return "True"
    gs = []
    for var, lo, op, hi in loops:
        lo_e = lean_expr(ast.parse(lo, mode="eval").body)
        hi_e = lean_expr(ast.parse(hi, mode="eval").body)
        gs.append(f"({lo_e} ≤ {var} ∧ {var} {'<' if op == '<' else '≤'} {hi_e})")
    return " ∧ ".join(gs)


# --------------------------------------------------------------------------- census

def census():
    setup = open(os.path.join(REPO, "setup.py")).read()
    m = re.search(r"cy_args\s*=\s*\{(.*?)\}", setup, re.S)
    if not m:
        raise Untranslatable("setup.py: cy_args not found")
    d = dict(re.findall(r"'([\w.]+)':\s*(True|False|'[^']*')", m.group(1)))
    if "compiler_directives=cy_args" not in setup.replace(" ", ""):
        raise Untranslatable("setup.py: cy_args is not passed as compiler_directives")
    overrides, raw = [], []
    for pkg in PKGS:
        text = open(os.path.join(SRC, pkg, "_ext", "numerics.pyx")).read()
        for mm in re.finditer(r"(boundscheck|wraparound|initializedcheck)\s*[(=]\s*(\w+)", text):
            overrides.append(f"{pkg}:{mm.group(1)}={mm.group(2)}")
        for name, body in pyx_functions(text).items():
            cnt = len(re.findall(r"PyArray_DATA|<[\w ]+\*>|&\s*\w+\s*\[|\bmalloc\b|\.data\b", body))
            if cnt:
                raw.append((pkg, name, len(re.findall(r"PyArray_DATA", body))))
        # raw-pointer constructs outside `def` functions (cdef helpers)
        outside = text
        for body in pyx_functions(text).values():
            outside = outside.replace(body, "")
        outside = re.sub(r"cdef extern from.*?(?=\n\S)", "", outside, flags=re.S)
        if re.search(r"PyArray_DATA|&\s*\w+\s*\[|\bmalloc\b", outside):
            raw.append((pkg, "<cdef>", 1))
    return d, overrides, raw


# --------------------------------------------------------------------------- output

CYORDER, CYCHECKS = {}, {}


def py_wrappers():
    """Generated/StructC20Py.lean: where the Python methods take the size arguments from"""
    sys.path.insert(0, os.path.dirname(os.path.abspath(__file__)))
    import c20_py
    try:
        ws = c20_py.analyse(SRC, CYORDER)
        ld = c20_py.line_dist(SRC) + c20_py.range_terms(SRC) + c20_py.nsi_betw_terms(SRC)
    except c20_py.Untranslatable as e:
        raise Untranslatable(str(e))
    out = ["/- GENERATED by translate/gen_C20.py (c20_py.py) from the current /repo working tree — do not edit. -/",
           "set_option linter.unusedVariables false",
           "namespace Pyunicorn.Generated.StructC20Py", "",
           "/-- one integer argument of a raw-pointer Cython wrapper as the calling Python method passes it:",
           "(Cython parameter, kind, text, pointer position, axis).  kind `arr`: equal to axis `axis` of the",
           "array passed at pointer position `pos`, as that array is when it is passed; `self`: the attribute",
           "`self.<text>` of the object; `param`: a scalar parameter of the method; `other`: anything else -/",
           "abbrev PySizeRow := String × String × String × Nat × Nat", ""]
    for w in ws:
        pre = w["pre"]
        out.append(f"/-! ### `{w['rel']}:{w['line']}  {w['cls']}.{w['meth']}` → `{w['cy']}` -/")
        out.append(f"def {pre}_pysizes : List PySizeRow :=\n  [" + ", ".join(
            f"({lit(n)}, {lit(k)}, {lit(t)}, {p}, {a})" for n, k, t, p, a in w["sizes"]) + "]")
        out.append("/-- arrays passed at the pointer positions with their symbolic shapes -/")
        out.append(f"def {pre}_pyarrays : List (String × List String) :=\n  [" + ", ".join(
            f"({lit(b)}, [" + ", ".join(lit(d) for d in dims) + "])" for b, dims in w["arrays"]) + "]")
        out.append("/-- `if a.shape != b.shape: raise` before the call, as pairs of pointer positions -/")
        out.append(f"def {pre}_pychecks : List (Nat × Nat) := [" + ", ".join(
            f"({a}, {b})" for a, b in w["checks"]) + "]")
        out.append("/-- `if <buf>.shape[k] != <int param>: raise` inside the Cython wrapper -/")
        out.append(f"def {pre}_cychecks : List (String × Nat × String) := [" + ", ".join(
            f"({lit(a)}, {k}, {lit(n)})" for a, k, n in CYCHECKS[pre]) + "]")
        out.append("/-- other methods of the class calling this one: (method, number of arguments passed) -/")
        out.append(f"def {pre}_forwarders : List (String × Nat) := [" + ", ".join(
            f"({lit(m)}, {n})" for m, n in w["forwarders"]) + "]")
        out.append(f"def {pre}_int_defaults : List (String × Int) := [" + ", ".join(
            f"({lit(k)}, {v})" for k, v in sorted(w["defaults"].items())) + "]")
        out.append("")
    out += ld
    out.append("end Pyunicorn.Generated.StructC20Py")
    with open(os.path.join(os.path.dirname(OUT), "StructC20Py.lean"), "w") as fh:
        fh.write("\n".join(out) + "\n")


def main():
    cy, py = type_tables()
    out = ["/- GENERATED by translate/gen_C20.py from the current /repo working tree — do not edit. -/",
           "namespace Pyunicorn.Generated.StructC20", "",
           "/-- one array subscript (`kind = 0`: `arr[idx]`) or pointer formation (`kind = 1`:",
           "`p = arr + idx`) of a C routine: the index expression, all its integer",
           "sub-expressions, the width of the C integer type they are evaluated in, and the",
           "ranges of the enclosing `for` loops -/",
           "structure Site where",
           "  kind : Nat", "  arr : String", "  bits : Nat", "  idx : Int", "  subs : List Int",
           "  guard : Prop", ""]
    for pre, pkg, wrapper, cfunc in ROUTINES:
        w = wrapper_facts(pkg, wrapper, cfunc, cy, py)
        CYORDER[pre], CYCHECKS[pre] = w["order"], w["cychecks"]
        sites, params, cptrs, cscalars = c_sites(pkg, cfunc)
        out.append(f"/-! ### `{pkg}/_ext/numerics.pyx: {wrapper}` → `src_numerics.c: {cfunc}` -/")
        ip = " ".join(w["intparams"])
        out.append(f"/-- arrays allocated by the wrapper: (name, element count, item size of the dtype) -/")
        out.append(f"def {pre}_allocs ({ip} : Nat) : List (String × Nat × Nat) :=")
        out.append("  [" + ", ".join(f"({lit(n)}, {' * '.join(d)}, {sz})" for n, d, sz in w["allocs"]) + "]")
        out.append(f"/-- pointer arguments of the call, in order: (array, pointee width of the cast) -/")
        out.append(f"def {pre}_ptrargs : List (String × Nat) :=")
        out.append("  [" + ", ".join(f"({lit(n)}, {sz})" for n, sz in w["ptrargs"]) + "]")
        out.append(f"/-- pointer parameters of the C function, in order: (name, pointee width) -/")
        out.append(f"def {pre}_cptrs : List (String × Nat) :=")
        out.append("  [" + ", ".join(f"({lit(n)}, {sz})" for n, sz in cptrs) + "]")
        out.append(f"/-- buffer parameters of the wrapper: (name, item size, ndim, C-contiguous demanded) -/")
        out.append(f"def {pre}_bufparams : List (String × Nat × Nat × Bool) :=")
        out.append("  [" + ", ".join(f"({lit(n)}, {sz}, {nd}, {'true' if c else 'false'})"
                                    for n, sz, nd, c in w["bufparams"]) + "]")
        out.append(f"def {pre}_scalarargs : List String := [" +
                   ", ".join(lit(a) for a in w["scalarargs"]) + "]")
        out.append(f"def {pre}_cscalars : List String := [" +
                   ", ".join(lit(a) for a in cscalars) + "]")
        out.append(f"/-- subscripts and closed-form pointer formations of `{cfunc}` -/")
        out.append(f"def {pre}_sites ({' '.join(params)} : Int) : List Site :=")
        rows = []
        for kind, arr, idx, subs, loops, bits, line in sites:
            if kind == "skipped":
                continue
            rows.append(f"   -- src_numerics.c:{line}  {'[' if kind == 'sub' else '+ '}{idx}\n"
                        f"   ⟨{0 if kind == 'sub' else 1}, {lit(arr)}, {bits}, {idx}, "
                        f"[{', '.join(subs)}], {guard(loops)}⟩")
        out.append("  [\n" + ",\n".join(rows) + "]")
        out.append(f"/-- pointer formations whose offset is a running variable or a stored symbol "
                   f"(not closed-form; covered by the access-trace model) -/")
        out.append(f"def {pre}_running : List (String × String) := [" +
                   ", ".join(f"({lit(a)}, {lit(e)})" for k, a, e, *_ in sites if k == "skipped") + "]")
        out.append("")
    d, overrides, raw = census()
    out.append("/-! ### census -/")
    out.append(f"def cy_boundscheck : Bool := {'true' if d.get('boundscheck') == 'True' else 'false'}")
    out.append(f"def cy_wraparound : Bool := {'true' if d.get('wraparound') == 'True' else 'false'}")
    out.append("/-- local overrides of the bounds-check directives in the four numerics.pyx -/")
    out.append("def pyx_overrides : List String := [" + ", ".join(lit(o) for o in overrides) + "]")
    out.append("/-- functions of the four numerics.pyx that use raw pointers: (package, function, "
               "number of PyArray_DATA) -/")
    out.append("def rawptr_functions : List (String × String × Nat) :=\n  [" +
               ", ".join(f"({lit(p)}, {lit(f)}, {c})" for p, f, c in sorted(raw)) + "]")
    out.append("")
    out.append("end Pyunicorn.Generated.StructC20")
    os.makedirs(os.path.dirname(OUT), exist_ok=True)
    with open(OUT, "w") as fh:
        fh.write("\n".join(out) + "\n")


def contract_lean(rel):
    """`embedding_0 >= n_time` -> Lean proposition over `v : String → Int`"""
    node = ast.parse(rel, mode="eval").body
    if isinstance(node, ast.BoolOp) and isinstance(node.op, ast.Or):
        return "(" + " ∨ ".join(contract_lean(ast.unparse(x)) for x in node.values) + ")"
    if not (isinstance(node, ast.Compare) and len(node.ops) == 1):
        raise Untranslatable(f"contract relation {rel!r}")

    def ex(n):
        if isinstance(n, ast.Name):
            return f'v "{n.id}"'
        if isinstance(n, ast.Constant) and isinstance(n.value, int):
            return str(n.value)
        if isinstance(n, ast.BinOp) and isinstance(n.op, (ast.Add, ast.Sub, ast.Mult)):
            op = {ast.Add: "+", ast.Sub: "-", ast.Mult: "*"}[type(n.op)]
            return f"({ex(n.left)} {op} {ex(n.right)})"
        raise Untranslatable(f"contract relation {rel!r}")
    op = {ast.GtE: "≥", ast.LtE: "≤", ast.Gt: ">", ast.Lt: "<", ast.Eq: "="}.get(type(node.ops[0]))
    if op is None:
        raise Untranslatable(f"contract relation {rel!r}")
    return f"{ex(node.left)} {op} {ex(node.comparators[0])}"


def pyx_kernels():
    """typed-buffer kernels: Generated/StructC20Pyx.lean and Generated/StructC20.json"""
    import json
    sys.path.insert(0, os.path.dirname(os.path.abspath(__file__)))
    import c20_pyx
    try:
        funcs = c20_pyx.analyse(SRC)
    except c20_pyx.Untranslatable as e:
        raise Untranslatable(str(e))
    contracts = json.load(open(os.path.join(os.path.dirname(os.path.abspath(__file__)),
                                            "c20_contracts.json")))
    out = ["/- GENERATED by translate/gen_C20.py (c20_pyx.py) from the current /repo working tree — do not edit. -/",
           "set_option linter.unusedVariables false",
           "namespace Pyunicorn.Generated.StructC20Pyx", "",
           "/-- one index of one subscript `arr[.., idx, ..]` of a typed buffer in a Cython kernel:",
           "the axis, the index expression, the extent of that axis (allocation expression of a local",
           "array, shape symbol `<arr>_<axis>` of a parameter), the ranges of the enclosing",
           "`for v in range(..)` loops, and whether the subscript is evaluated only under a",
           "data-dependent condition (`if`, `while`, short-circuit, after `break`/`continue`).",
           "Variables are looked up in `v : String → Int`. -/",
           "structure PSite where",
           "  arr : String", "  axis : Nat", "  idx : Int", "  dim : Int", "  g : Bool", "  cond : Bool", ""]
    table, census, cnt_rows, bcnt_rows = [], [], [], []
    for f in funcs:
        nm = f["lean"]
        rows = []
        for s in f["closed"]:
            g = " && ".join(s["guard"]) if s["guard"] else "true"
            rows.append(f"   -- numerics.pyx:{s['line']}  {s['text']}\n"
                        f"   ⟨{lit(s['arr'])}, {s['axis']}, {s['idx']}, {s['dim']}, {g}, "
                        f"{'true' if s['cond'] else 'false'}⟩")
        out.append(f"/-! ### `{f['pkg']}/_ext/numerics.pyx:{f['line']}  {f['name']}` -/")
        out.append(f"def {nm}_psites (v : String → Int) : List PSite :=")
        out.append("  [\n" + ",\n".join(rows) + "]" if rows else "  []")
        rels = contracts.get(f["key"], [])
        out.append(f"/-- what the Python callers pass (translate/c20_contracts.json) -/")
        out.append(f"def {nm}_contract (v : String → Int) : Prop :=")
        out.append("  " + (" ∧ ".join(contract_lean(r) for r in rels) if rels else "True"))
        out.append(f"/-- subscripts whose index is read from memory / drawn at random / advanced by a "
                   f"`while` loop (left to Cython's bounds check): (array, subscript) -/")
        out.append(f"def {nm}_checked : List (String × String) := [" +
                   ", ".join(f"({lit(a)}, {lit(t)})" for a, t, *_ in f["checked"]) + "]")
        out.append("")
        table.append(f"({lit(f['key'])}, {nm}_psites, [" +
                     ", ".join(lit(x) for x in f["loopvars"]) + "])")
        census.append(f"({lit(f['key'])}, {len(f['closed'])}, {len(f['checked'])}, {len(f['pyobj'])})")
        for (n, ty, bits, how) in f["counters"]:
            cnt_rows.append(f"({lit(f['key'])}, {lit(n)}, {bits}, {lit(how)})")
        for (n, ty, bits, how) in f["buffer_counters"]:
            bcnt_rows.append(f"({lit(f['key'])}, {lit(n)}, {bits}, {lit(how)})")
    for key in contracts:
        if key != "_comment" and key not in {f["key"] for f in funcs}:
            raise Untranslatable(f"c20_contracts.json names {key}, which is not in the source")
    out.append("/-- dispatch table for the driver: kernel, its sites, its loop variables -/")
    out.append("def kernel_table : List (String × ((String → Int) → List PSite) × List String) :=\n  [" +
               ",\n   ".join(table) + "]")
    out.append("/-- census: (kernel, index expressions proved from closed form, subscripts left to the "
               "bounds check, subscripts handled by NumPy) -/")
    out.append("def kernel_census : List (String × Nat × Nat × Nat) :=\n  [" + ",\n   ".join(census) + "]")
    out.append("/-- typed integer locals that are incremented / decremented: (kernel, name, bits, how) -/")
    out.append("def scalar_counters : List (String × String × Nat × String) :=\n  [" +
               ",\n   ".join(cnt_rows) + "]")
    out.append("/-- integer buffers incremented / decremented in place: (kernel, array, bits of the "
               "element type, how) -/")
    out.append("def buffer_counters : List (String × String × Nat × String) :=\n  [" +
               ",\n   ".join(bcnt_rows) + "]")
    out.append("")
    out.append("end Pyunicorn.Generated.StructC20Pyx")
    d = os.path.dirname(OUT)
    with open(os.path.join(d, "StructC20Pyx.lean"), "w") as fh:
        fh.write("\n".join(out) + "\n")
    js = {}
    for f in funcs:
        js[f["key"]] = dict(
            lean=f["lean"], line=f["line"], keyword=f["keyword"], params=f["params"], loopvars=f["loopvars"],
            n_closed=len(f["closed"]), n_checked=len(f["checked"]), n_pyobj=len(f["pyobj"]),
            has_while=f["has_while"], contract=contracts.get(f["key"], []),
            shapes=sorted({s["dim"] for s in f["closed"]}),
            uncond=sum(1 for s in f["closed"] if not s["cond"]))
    with open(os.path.join(d, "StructC20.json"), "w") as fh:
        json.dump(js, fh, indent=1)


def run_sites():
    """Generated/StructC20Run.lean: the pointer walks with running offsets of the two
    mutual-information routines resolved to `array[closed-form index]` (translate/c20_crun.py)"""
    sys.path.insert(0, os.path.dirname(os.path.abspath(__file__)))
    import c20_crun
    out = ["/- GENERATED by translate/gen_C20.py (c20_crun.py) from the current /repo working tree — do not edit. -/",
           "import Pyunicorn.Generated.StructC20",
           "set_option linter.unusedVariables false",
           "namespace Pyunicorn.Generated.StructC20Run",
           "open Pyunicorn.Generated.StructC20 (Site)", ""]
    for pre, pkg, wrapper, cfunc in ROUTINES:
        if pre not in ("mi", "tmi"):
            continue
        sig, body, line0 = c_function(pkg, cfunc)
        ptrs, scalars, types = c_params(sig)
        for m in re.finditer(r"\b(unsigned int|int|long)\s+([^;(){}*]+);", body):
            for d in m.group(2).split(","):
                name = d.split("=")[0].strip()
                if re.match(r"^\w+$", name):
                    types[name] = m.group(1)
        try:
            sites, symbols, stores = c20_crun.analyse(body, line0, [p for p, _ in ptrs], scalars, types)
        except c20_crun.Untranslatable as e:
            raise Untranslatable(f"{cfunc}: {e}")
        loopvars = []
        for _, _, _, loops, _ in sites:
            for l in loops:
                if l[0] not in loopvars:
                    loopvars.append(l[0])
        params = [s for s in scalars if types.get(s) in INTBITS] + loopvars + symbols
        out.append(f"/-! ### `{pkg}/_ext/src_numerics.c: {cfunc}` — pointer walks resolved -/")
        out.append(f"/-- every pointer formation `p = a + e` (kind 1) and every dereference `*p` (kind 0) of "
                   f"`{cfunc}`, with the running offsets and running pointers resolved to closed form in "
                   f"the loop variables; `s_<p>` is the value read through `*<p>` inside an offset -/")
        out.append(f"def {pre}_run_sites ({' '.join(params)} : Int) : List Site :=")
        rows = []
        for kind, arr, idx, loops, line in sites:
            g = " ∧ ".join(f"({lo} ≤ {v} ∧ {v} {'<' if op == '<' else '≤'} {hi})"
                           for v, lo, op, hi in loops) or "True"
            rows.append(f"   -- src_numerics.c:{line}\n   ⟨{kind}, {lit(arr)}, 64, {idx}, [{idx}], {g}⟩")
        out.append("  [\n" + ",\n".join(rows) + "]")
        out.append(f"/-- values read from memory inside an offset expression -/")
        out.append(f"def {pre}_run_symbols : List String := [" + ", ".join(lit(s) for s in symbols) + "]")
        out.append(f"/-- every store through a pointer: (array, operator and right-hand side) -/")
        out.append(f"def {pre}_stores : List (String × String) := [" +
                   ", ".join(f"({lit(a)}, {lit(t)})" for a, t in stores) + "]")
        out.append("")
    out.append("end Pyunicorn.Generated.StructC20Run")
    with open(os.path.join(os.path.dirname(OUT), "StructC20Run.lean"), "w") as fh:
        fh.write("\n".join(out) + "\n")


try:
    main()
    pyx_kernels()
    py_wrappers()
    run_sites()
except Untranslatable as e:
    print("gen_C20: cannot translate:", e, file=sys.stderr)
    sys.exit(1)
