#!/usr/bin/env python3
"""C20, round 4: where do the Python methods that call the raw-pointer Cython wrappers take the
SIZE arguments from?

The six Cython wrappers receive array sizes as separate integers (`mutual_information(anomaly,
n_samples, N, ...)`, `spearman_corr(m, tmax, mask, ranks)`, ...) and the C routines trust them.
This reader follows the body of the calling Python method symbolically (python `ast`): every
array value carries its shape as a tuple of *dimension symbols* (`<parameter>.<axis>`), `.T`
reverses it, `.copy()`, `to_cy(x, T)` and shape-preserving helpers keep it, `x.shape` unpacks
it, `self.<attr>` is the object's own attribute.  At the call of the Cython wrapper each integer
argument is classified:

  ("arr", pos, axis)   equal to axis `axis` of the array passed at pointer position `pos`
                       (as that array is when it is passed)
  ("self", attr)       an attribute of the object (e.g. `self.N`)
  ("param", name)      a scalar parameter of the method passed through
  ("other", text)      anything else

and every `if a.shape != b.shape: raise` that precedes the call is recorded as a pair of
pointer positions.  The translation is purely syntactic; anything it cannot follow raises."""
import ast
import os
import re


class Untranslatable(Exception):
    pass


PYWRAPPERS = [
    # lean prefix, file, class, method, Cython wrapper
    ("mi", "climate/mutual_info.py", "MutualInfoClimateNetwork",
     "_cython_calculate_mutual_information", "mutual_information"),
    ("spearman", "climate/rainfall.py", "RainfallClimateNetwork", "spearman_corr", "spearman_corr"),
    ("pearson", "timeseries/surrogates.py", "Surrogates", "test_pearson_correlation",
     "_test_pearson_correlation"),
    ("tmi", "timeseries/surrogates.py", "Surrogates", "test_mutual_information",
     "_test_mutual_information"),
    ("vcfb", "core/resistive_network.py", "ResNetwork", "vertex_current_flow_betweenness",
     "_vertex_current_flow_betweenness"),
    ("ecfb", "core/resistive_network.py", "ResNetwork", "edge_current_flow_betweenness",
     "_edge_current_flow_betweenness"),
]

# helpers whose result has the shape of their (first) argument; each is verified syntactically
# below (`check_shape_preserving`): the body may only use argsort / elementwise arithmetic
SHAPE_PRESERVING = {"rank_time_series"}
# in-place helpers that keep the shape of their argument (statement position only)
HELD_ARRAYS = {"get_admittance", "get_R"}


def find_method(src, relpath, cls, meth):
    tree = ast.parse(open(os.path.join(src, relpath)).read())
    for node in tree.body:
        if isinstance(node, ast.ClassDef) and node.name == cls:
            for f in node.body:
                if isinstance(f, ast.FunctionDef) and f.name == meth:
                    return node, f
    raise Untranslatable(f"{relpath}: no {cls}.{meth}")


def check_shape_preserving(clsnode, name):
    for f in clsnode.body:
        if isinstance(f, ast.FunctionDef) and f.name == name:
            body = [s for s in f.body if not (isinstance(s, ast.Expr) and
                                              isinstance(s.value, ast.Constant))]
            txt = " ".join(ast.unparse(s) for s in body)
            arg = [a.arg for a in f.args.args if a.arg != "self"][0]
            # <arg>.argsort(axis=1).argsort(axis=1) + 1.0 — elementwise over the argument
            ok = re.fullmatch(
                rf"(\w+) = {arg}\.argsort\(axis=\d\)\.argsort\(axis=\d\) \+ [\d.]+ return \1", txt)
            if not ok:
                raise Untranslatable(f"{name}: body is not recognisably shape-preserving: {txt!r}")
            return
    raise Untranslatable(f"no helper {name}")


def dim_str(d):
    return f"{d[1]}.{d[2]}" if d[0] == "ax" else f"self.{d[1]}" if d[0] == "self" else str(d[1])


class Walker:
    def __init__(self, clsnode, f, cywrapper):
        self.cls, self.f, self.cy = clsnode, f, cywrapper
        self.env = {}
        self.scalars = set()
        self.checks = []
        self.call = None
        static = any(isinstance(d, ast.Name) and d.id == "staticmethod" for d in f.decorator_list)
        names = [a.arg for a in f.args.args]
        if not static:
            names = names[1:]
        self.defaults = {}
        ds = f.args.defaults
        for a, d in zip(names[len(names) - len(ds):], ds):
            self.defaults[a] = d
        for a in names:
            if a in self.defaults or a in ("i", "n_bins"):
                self.scalars.add(a)
                self.env[a] = ("int", ("param", a, 0))
            else:
                self.env[a] = ("arr", (("ax", a, 0), ("ax", a, 1)))

    def ev(self, n):
        if isinstance(n, ast.Name):
            return self.env.get(n.id, ("opaque", n.id))
        if isinstance(n, ast.Attribute):
            if isinstance(n.value, ast.Name) and n.value.id == "self":
                return ("int", ("self", n.attr, 0))
            v = self.ev(n.value)
            if n.attr == "T" and v[0] == "arr":
                return ("arr", tuple(reversed(v[1])))
            if n.attr == "shape" and v[0] == "arr":
                return ("tup", [("int", d) for d in v[1]])
            return ("opaque", ast.unparse(n))
        if isinstance(n, ast.Subscript):
            v = self.ev(n.value)
            if v[0] == "tup" and isinstance(n.slice, ast.Constant) and isinstance(n.slice.value, int):
                return v[1][n.slice.value]
            return ("opaque", ast.unparse(n))
        if isinstance(n, ast.Call):
            fn = n.func
            if isinstance(fn, ast.Attribute) and fn.attr == "copy" and not n.args:
                return self.ev(fn.value)
            if isinstance(fn, ast.Name) and fn.id == "to_cy" and len(n.args) == 2:
                return self.ev(n.args[0])
            if isinstance(fn, ast.Attribute) and fn.attr in SHAPE_PRESERVING and len(n.args) == 1:
                check_shape_preserving(self.cls, fn.attr)
                return self.ev(n.args[0])
            if isinstance(fn, ast.Attribute) and fn.attr in HELD_ARRAYS and not n.args \
                    and isinstance(fn.value, ast.Name) and fn.value.id == "self":
                t = f"self.{fn.attr}()"
                return ("arr", (("ax", t, 0), ("ax", t, 1)))
            return ("opaque", ast.unparse(n))
        if isinstance(n, ast.Tuple):
            return ("tup", [self.ev(e) for e in n.elts])
        return ("opaque", ast.unparse(n))

    def assign(self, target, val):
        if isinstance(target, ast.Name):
            self.env[target.id] = val
        elif isinstance(target, ast.Tuple):
            if val[0] != "tup" or len(val[1]) != len(target.elts):
                raise Untranslatable(f"cannot unpack {ast.unparse(target)}")
            for t, v in zip(target.elts, val[1]):
                self.assign(t, v)
        # attribute / subscript targets do not rebind a local

    def find_call(self, stmt):
        for c in ast.walk(stmt):
            if isinstance(c, ast.Call) and isinstance(c.func, ast.Name) and c.func.id == self.cy:
                return c
        return None

    def run(self):
        for s in self.f.body:
            c = self.find_call(s)
            if c is not None:
                self.call = [(None, a) for a in c.args] + [(k.arg, k.value) for k in c.keywords]
                self.vals = [self.ev(a) for _, a in self.call]
                return
            if isinstance(s, ast.Assign):
                val = self.ev(s.value)
                for tg in s.targets:
                    self.assign(tg, val)
            elif isinstance(s, ast.AugAssign):
                if isinstance(s.target, ast.Name) and self.env.get(s.target.id, ("x",))[0] == "int":
                    self.env[s.target.id] = ("opaque", ast.unparse(s))
            elif isinstance(s, ast.If):
                only_raise = len(s.body) == 1 and isinstance(s.body[0], ast.Raise) and not s.orelse
                t = s.test
                if only_raise and isinstance(t, ast.Compare) and len(t.ops) == 1 and \
                        isinstance(t.ops[0], ast.NotEq):
                    a, b = self.ev(t.left), self.ev(t.comparators[0])
                    if a[0] == "tup" and b[0] == "tup":
                        self.checks.append((tuple(x[1] for x in a[1]), tuple(x[1] for x in b[1])))
                for sub in ast.walk(s):
                    if isinstance(sub, (ast.Assign, ast.AugAssign)):
                        for tg in ([sub.target] if isinstance(sub, ast.AugAssign) else sub.targets):
                            for nm in ast.walk(tg):
                                if isinstance(nm, ast.Name) and nm.id in self.env and \
                                        not isinstance(tg, (ast.Attribute, ast.Subscript)):
                                    raise Untranslatable(
                                        f"{self.f.name}: conditional rebinding of {nm.id}")
            elif isinstance(s, (ast.Expr, ast.Return, ast.Raise, ast.Pass, ast.Assert)):
                pass
            else:
                raise Untranslatable(f"{self.f.name}: statement {type(s).__name__}")
        raise Untranslatable(f"{self.f.name}: no call of {self.cy}")


def analyse(src, cyorder):
    """cyorder: lean prefix -> ordered [(name, kind)] of the Cython wrapper's parameters
    (kind in buf|int|float).  -> list of dicts"""
    res = []
    for pre, rel, cls, meth, cy in PYWRAPPERS:
        clsnode, f = find_method(src, rel, cls, meth)
        w = Walker(clsnode, f, cy)
        w.run()
        order = cyorder[pre]
        if len(w.call) != len(order):
            raise Untranslatable(f"{cls}.{meth}: {len(w.call)} arguments for {len(order)} parameters "
                                 f"of {cy}")
        bound = {}
        for k, ((kw, _), v) in enumerate(zip(w.call, w.vals)):
            name = kw if kw is not None else order[k][0]
            bound[name] = v
        bufs = [n for n, kind in order if kind == "buf"]
        arrays = []
        for b in bufs:
            v = bound[b]
            if v[0] != "arr":
                raise Untranslatable(f"{cls}.{meth}: array argument {b} is {v}")
            arrays.append((b, v[1]))

        def locate(dim):
            for p, (_, dims) in enumerate(arrays):
                for q, d in enumerate(dims):
                    if d == dim:
                        return p, q
            return None
        sizes = []
        for n, kind in order:
            if kind != "int":
                continue
            v = bound[n]
            if v[0] == "int" and v[1][0] == "self":
                sizes.append((n, "self", v[1][1], 0, 0))
            elif v[0] == "int" and v[1][0] == "param":
                sizes.append((n, "param", v[1][1], 0, 0))
            elif v[0] == "int" and v[1][0] == "ax":
                loc = locate(v[1])
                if loc is None:
                    sizes.append((n, "other", dim_str(v[1]), 0, 0))
                else:
                    sizes.append((n, "arr", dim_str(v[1]), loc[0], loc[1]))
            else:
                sizes.append((n, "other", str(v[1]), 0, 0))
        checks = []
        for a, b in w.checks:
            pa = [p for p, (_, dims) in enumerate(arrays) if tuple(dims) == tuple(a)]
            pb = [p for p, (_, dims) in enumerate(arrays) if tuple(dims) == tuple(b)]
            if pa and pb:
                checks.append((pa[0], pb[0]))
        # public methods of the class that forward to this worker, and what they pass
        forwarders = []
        for g in clsnode.body:
            if isinstance(g, ast.FunctionDef) and g.name != meth:
                for c in ast.walk(g):
                    if isinstance(c, ast.Call) and isinstance(c.func, ast.Attribute) and \
                            c.func.attr == meth:
                        forwarders.append((g.name, len(c.args) + len(c.keywords)))
        defaults = {k: v.value for k, v in w.defaults.items()
                    if isinstance(v, ast.Constant) and isinstance(v.value, int)
                    and not isinstance(v.value, bool)}
        res.append(dict(pre=pre, cls=cls, meth=meth, cy=cy, sizes=sizes, checks=checks,
                        arrays=[(b, [dim_str(d) for d in dims]) for b, dims in arrays],
                        forwarders=sorted(set(forwarders)), defaults=defaults, line=f.lineno,
                        rel=rel))
    return res


# --------------------------------------------------------------------------- _line_dist

def _lean(node):
    """integer expression with calls of the function parameters -> Lean"""
    if isinstance(node, ast.BinOp) and isinstance(node.op, (ast.Add, ast.Sub, ast.Mult)):
        op = {ast.Add: "+", ast.Sub: "-", ast.Mult: "*"}[type(node.op)]
        return f"({_lean(node.left)} {op} {_lean(node.right)})"
    if isinstance(node, ast.Name):
        return node.id
    if isinstance(node, ast.Constant) and isinstance(node.value, int) and not isinstance(node.value, bool):
        return str(node.value)
    if isinstance(node, ast.Call) and isinstance(node.func, ast.Name) and not node.keywords:
        return "(" + " ".join([node.func.id] + [_lean(a) for a in node.args]) + ")"
    raise Untranslatable("expression " + ast.unparse(node))


def _expr(text):
    try:
        return _lean(ast.parse(text.strip(), mode="eval").body)
    except SyntaxError:
        raise Untranslatable(f"expression {text!r}")


def line_dist(src):
    """`timeseries/_ext/numerics.pyx`: the loop skeleton of `cdef _line_dist` (outer / inner range,
    row index, histogram subscript, `skip_main`), the inline index functions `i2J_*`, `ij2I_*`, and
    which of them each of the `def` wrappers passes -> Lean lines"""
    text = open(os.path.join(src, "timeseries", "_ext", "numerics.pyx")).read()
    text = re.sub(r"#[^\n]*", "", text)
    out = ["/-! ### `timeseries/_ext/numerics.pyx`: `_line_dist` (all RQA line histograms) -/"]
    fns = {}
    for m in re.finditer(r"inline int (i2J_\w+|ij2I_\w+)\(([^)]*)\): return ([^\n]+)", text):
        name, params, body = m.groups()
        ps = [p.split()[-1] for p in params.split(",")]
        if any(not p.strip().startswith("int ") for p in params.split(",")):
            raise Untranslatable(f"{name}: non-int parameter")
        fns[name] = len(ps)
        out.append(f"def {name} ({' '.join(ps)} : Int) : Int := {_expr(body)}")
    m = re.search(r"^cdef void _line_dist\((.*?)\):\n(.*?)(?=^def |^cdef |\Z)", text, re.S | re.M)
    if not m:
        raise Untranslatable("no cdef _line_dist")
    sig = " ".join(m.group(1).split())
    params = [p.strip().split()[-1] for p in re.sub(r"\[[^\]]*\]", "", sig).split(",")]
    body = m.group(2)
    body = re.sub(r'"""(.*?)"""', "", body, flags=re.S)
    if not re.search(r"\bN = n_time\b", body):
        raise Untranslatable("_line_dist: `N = n_time` not found")
    ms = re.search(r"if skip_main:\s*\n\s*N (-=|\+=) (\d+)\s*\n", body)
    if not ms:
        raise Untranslatable("_line_dist: `if skip_main: N -= 1` not found")
    loops = re.findall(r"for (\w+) in range\(([^\n]*)\):", body)
    if [v for v, _ in loops] != ["i", "j"]:
        raise Untranslatable(f"_line_dist: loops {loops}")
    mi = re.findall(r"^\s*I = ([^\n]+)$", body, re.M)
    if len(mi) != 1:
        raise Untranslatable("_line_dist: assignment of I")
    hs = set(" ".join(h.split()) for h in re.findall(r"hist\[([^\]]*)\]", body))
    if len(hs) != 1:
        raise Untranslatable(f"_line_dist: histogram subscripts {hs}")
    subs = sorted(set(re.findall(r"\b(R|M|E|hist)\[([^\]]*)\]", body)))
    out.append("/-- `N = n_time; if skip_main: N -= 1` -/")
    out.append(f"def ld_N (n_time : Int) (skip_main : Bool) : Int := if skip_main then n_time "
               f"{'-' if ms.group(1) == '-=' else '+'} {ms.group(2)} else n_time")
    out.append("/-- `for i in range(·)` -/")
    out.append(f"def ld_outer (N : Int) : Int := {_expr(loops[0][1])}")
    out.append("/-- `for j in range(·)` -/")
    out.append(f"def ld_inner (i2J : Int → Int → Int) (i N : Int) : Int := {_expr(loops[1][1])}")
    out.append("/-- `I = ·` -/")
    out.append(f"def ld_I (ij2I : Int → Int → Int → Int) (i j N : Int) : Int := {_expr(mi[0])}")
    out.append("/-- `hist[·] += 1` (both occurrences) -/")
    out.append(f"def ld_hist_idx (k : Int) : Int := {_expr(hs.pop())}")
    out.append("/-- every subscript of a buffer in the body of `_line_dist` -/")
    out.append("def ld_subscripts : List (String × String) := [" + ", ".join(
        f'("{a}", "{" ".join(e.split())}")' for a, e in subs) + "]")
    # metric_supremum(I, j, dim, E): `for l in range(dim)`, E[I, l], E[j, l]
    mm = re.search(r"inline DFIELD_t metric_supremum\(([^)]*)\):\n(.*?)return diff", text, re.S)
    if not mm:
        raise Untranslatable("no metric_supremum")
    ml = re.findall(r"for (\w+) in range\(([^\n]*)\):", mm.group(2))
    msub = sorted(set(re.findall(r"\b(E)\[([^\]]*)\]", mm.group(2))))
    out.append("/-- `metric_supremum`: loops and subscripts -/")
    out.append("def ld_metric_loops : List (String × String) := [" + ", ".join(
        f'("{a}", "{b.strip()}")' for a, b in ml) + "]")
    out.append("def ld_metric_subscripts : List (String × String) := [" + ", ".join(
        f'("{a}", "{" ".join(e.split())}")' for a, e in msub) + "]")
    # the wrappers
    out.append("/-- one `def` wrapper around `_line_dist`: name, the index functions and flags it passes;")
    out.append("`seq`: the recurrence test is computed from the embedding (`dim` is passed through) -/")
    out.append("structure LDWrap where")
    out += ["  name : String", "  i2J : Int → Int → Int", "  ij2I : Int → Int → Int → Int",
            "  skip : Bool", "  mv : Bool", "  seq : Bool", "  black : Bool", "  fns : String × String"]
    rows = []
    for w in re.finditer(r"^def (_\w+)\((.*?)\):\n(.*?)(?=^def |^cdef |^# |\Z)", text, re.S | re.M):
        name, _, wb = w.groups()
        k = wb.find("_line_dist(")
        if k < 0:
            continue
        depth, e = 0, k + len("_line_dist")
        for e in range(k + len("_line_dist"), len(wb)):
            depth += wb[e] == "("
            depth -= wb[e] == ")"
            if depth == 0:
                break
        args = [" ".join(a.split()) for a in wb[k + len("_line_dist("):e].split(",")]
        if len(args) != len(params):
            raise Untranslatable(f"{name}: {len(args)} arguments for _line_dist")
        a = dict(zip(params, args))
        if a["i2J"] not in fns or a["ij2I"] not in fns or fns[a["i2J"]] != 2 or fns[a["ij2I"]] != 3:
            raise Untranslatable(f"{name}: index functions {a['i2J']}, {a['ij2I']}")
        for flag in ("skip_main", "missing_values", "black"):
            if a[flag] not in ("True", "False"):
                raise Untranslatable(f"{name}: {flag} = {a[flag]}")
        if a["n_time"] != "n_time" or a["hist"] != "hist":
            raise Untranslatable(f"{name}: n_time / hist are not passed through")
        seq = a["dim"] != "0"
        if seq and a["dim"] != "dim":
            raise Untranslatable(f"{name}: dim = {a['dim']}")
        b = lambda x: "true" if x == "True" else "false"  # noqa
        rows.append(f'⟨"{name}", {a["i2J"]}, {a["ij2I"]}, {b(a["skip_main"])}, '
                    f'{b(a["missing_values"])}, {"true" if seq else "false"}, {b(a["black"])}, '
                    f'("{a["i2J"]}", "{a["ij2I"]}")⟩')
    if not rows:
        raise Untranslatable("no wrapper of _line_dist found")
    out.append("def line_dist_wrappers : List LDWrap :=\n  [" + ",\n   ".join(rows) + "]")
    out.append("")
    return out


# --------------------------------------------------------------------------- histogram range

def range_terms(src):
    """the common histogram range of the two mutual-information wrappers: which extreme of which
    array enters `range_min` / `range_max`, and the expression of `scaling` -> Lean lines"""
    out = ["/-! ### histogram range of the mutual-information wrappers -/"]
    text = open(os.path.join(src, "timeseries", "_ext", "numerics.pyx")).read()
    m = re.search(r"^def _test_mutual_information\((.*?)\):\n(.*?)(?=^def |^cdef |\Z)", text, re.S | re.M)
    if not m:
        raise Untranslatable("no _test_mutual_information")
    body = " ".join(re.sub(r"#[^\n]*", "", m.group(2)).split())

    def terms(name, fn):
        mm = re.search(rf"{name} = np\.{fn}\(\((\w+)\.(\w+)\(\), (\w+)\.(\w+)\(\)\)\)", body)
        if not mm:
            raise Untranslatable(f"_test_mutual_information: {name} is not np.{fn} of two extremes")
        return [(mm.group(1), mm.group(2)), (mm.group(3), mm.group(4))]

    def scaling(b, who):
        mm = re.search(r"scaling = ([^\n;]+?)(?= #| \w+\[|\Z| ndarray| mi = | DFIELD_t)", b)
        if not mm:
            raise Untranslatable(f"{who}: scaling not found")
        try:
            return ast.unparse(ast.parse(mm.group(1).strip(), mode="eval"))
        except SyntaxError:
            raise Untranslatable(f"{who}: scaling = {mm.group(1)!r}")
    fmt = lambda l: "[" + ", ".join(f'("{a}", "{b}")' for a, b in l) + "]"  # noqa
    out.append(f'def tmi_range_min : String × List (String × String) := ("np.min", {fmt(terms("range_min", "min"))})')
    out.append(f'def tmi_range_max : String × List (String × String) := ("np.max", {fmt(terms("range_max", "max"))})')
    out.append(f'def tmi_scaling : String := "{scaling(body, "_test_mutual_information")}"')
    _, f = find_method(src, "climate/mutual_info.py", "MutualInfoClimateNetwork",
                       "_cython_calculate_mutual_information")
    vals = {}
    for st in f.body:
        if isinstance(st, ast.Assign) and len(st.targets) == 1 and isinstance(st.targets[0], ast.Name):
            vals[st.targets[0].id] = ast.unparse(st.value)
    for k in ("range_min", "range_max", "scaling", "anomaly"):
        if k not in vals:
            raise Untranslatable(f"_cython_calculate_mutual_information: no assignment of {k}")
    out.append(f'def mi_range_min : String := "{vals["range_min"]}"')
    out.append(f'def mi_range_max : String := "{vals["range_max"]}"')
    out.append(f'def mi_scaling : String := "{vals["scaling"]}"')
    out.append("/-- last rebinding of `anomaly` before the range is taken (the array that reaches the kernel) -/")
    out.append(f'def mi_anomaly_last : String := "{vals["anomaly"]}"')
    # round 5c: every statement of the worker that touches `anomaly` before the range is taken, in
    # program order, and the statements of `Data.normalize_time_series_array` it calls — the model
    # `miCallX` interprets these strings (a statement it does not know is "cannot evaluate")
    steps = []
    for st in f.body:
        s = ast.unparse(st)
        if isinstance(st, ast.Assign) and any(isinstance(t, ast.Name) and t.id == "range_min"
                                              for t in st.targets):
            break
        if isinstance(st, ast.Expr) and isinstance(st.value, ast.Constant):
            continue                                   # docstring
        names = {n.id for n in ast.walk(st) if isinstance(n, ast.Name)}
        if "anomaly" in names:                         # (the `print` under `if self.silence_level` is not)
            steps.append(s)
    _, g = find_method(src, "core/data.py", "Data", "normalize_time_series_array")
    nsteps = [ast.unparse(st) for st in g.body
              if not (isinstance(st, ast.Expr) and isinstance(st.value, ast.Constant))]
    call = None
    for n in ast.walk(f):
        if isinstance(n, ast.Call) and isinstance(n.func, ast.Name) and n.func.id == "mutual_information":
            call = [ast.unparse(a) for a in n.args]
    if call is None:
        raise Untranslatable("_cython_calculate_mutual_information: no call of mutual_information")
    q = lambda l: "[" + ", ".join('"' + x.replace('"', "'") + '"' for x in l) + "]"  # noqa
    out.append("/-- statements of `_cython_calculate_mutual_information` that touch `anomaly` before the range -/")
    out.append(f"def mi_steps : List String := {q(steps)}")
    out.append("/-- statements of `Data.normalize_time_series_array` -/")
    out.append(f"def normalize_steps : List String := {q(nsteps)}")
    out.append("/-- arguments of the call of the Cython wrapper `mutual_information` -/")
    out.append(f"def mi_call_args : List String := {q(call)}")
    out.append("")
    return out


def nsi_betw_terms(src):
    """round 5e: the statements by which `Network.nsi_betweenness` / `Network._nsi_betweenness`
    (core/network.py) build the arguments of the kernel `_nsi_betweenness`, as texts, plus the bodies
    of the two helpers they use (`Network.outdegree` without key, `nz_coords`).  The Lean model
    `NsiCsr.nsiArgs` evaluates exactly these texts (anything else: "cannot evaluate")."""
    rel = "core/network.py"
    tree = ast.parse(open(os.path.join(src, rel)).read())
    _, pub = find_method(src, rel, "Network", "nsi_betweenness")
    _, wrk = find_method(src, rel, "Network", "_nsi_betweenness")
    _, outd = find_method(src, rel, "Network", "outdegree")
    nodoc = lambda body: [s for s in body if not (isinstance(s, ast.Expr) and  # noqa
                                                  isinstance(s.value, ast.Constant))]
    public = [ast.unparse(s) for s in nodoc(pub.body)]
    worker = []
    for s in nodoc(wrk.body):
        worker.append(ast.unparse(s))
        if isinstance(s, ast.Assign) and any(isinstance(t, ast.Name) and t.id == "worker"
                                             for t in s.targets):
            break
    else:
        raise Untranslatable("_nsi_betweenness: no `worker = partial(...)`")
    od = None
    for s in nodoc(outd.body):
        if isinstance(s, ast.If) and ast.unparse(s.test) == "key is None" and \
                len(s.body) == 1 and isinstance(s.body[0], ast.Return):
            od = ast.unparse(s.body[0].value)
    if od is None:
        raise Untranslatable("Network.outdegree: no `if key is None: return ...`")
    nz = None
    for f in tree.body:
        if isinstance(f, ast.FunctionDef) and f.name == "nz_coords":
            b = nodoc(f.body)
            if len(b) == 1 and isinstance(b[0], ast.Return):
                nz = ast.unparse(b[0].value)
    if nz is None:
        raise Untranslatable("nz_coords: body is not a single return")
    q = lambda l: "[" + ",\n   ".join('"' + x.replace("\\", "\\\\").replace('"', '\\"').replace("\n", "\\n")  # noqa
                                      + '"' for x in l) + "]"
    out = ["/-! ### construction of the CSR arguments of `_nsi_betweenness` (round 5e) -/",
           "/-- statements of `Network.nsi_betweenness` -/",
           f"def nsib_public : List String :=\n  {q(public)}",
           "/-- statements of `Network._nsi_betweenness` up to `worker = partial(_nsi_betweenness, ...)` -/",
           f"def nsib_worker : List String :=\n  {q(worker)}",
           "/-- `Network.outdegree(key=None)` -/",
           f"def nsib_outdegree : String := {q([od])[1:-1]}",
           "/-- `nz_coords(matrix)` -/",
           f"def nsib_nz_coords : String := {q([nz])[1:-1]}", ""]
    return out
