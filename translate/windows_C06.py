"""windows_C06 — the statement block around every *restored* temporary edit (round 5).

gen_C06.py accepts two literal edit-then-restore forms on a shared array `x`
(`m = np.isinf(x); x[m] = c; …; x[m] = np.inf` and `np.fill_diagonal(x, np.inf); …;
np.fill_diagonal(x, 0)`).  The restore makes the method pure only if, while the edit is in
place, (a) no code runs that can reach the object (a nested query would be answered from the
temporary content, and an lru-cached one would keep the wrong answer for good) and (b) control
cannot leave the method.  This module turns the innermost statement list that contains the edits
into a list of steps of `Pyunicorn.Pure.WStep` (Model/PureWindow.lean):

  mask      `m = np.isinf(x)` / `m = x == np.inf`       (m = the index of the edits)
  edit      an edit of x that is not the last one
  restore   the last edit of x
  comp      a statement / expression that runs no code able to reach the object:
            operators, constants, names, calls of builtins, of numpy / scipy / math functions,
            of ndarray methods on expressions that do not mention `self`
  call W    anything else that is called: `self.m(..)`, `self.a.m(..)`, `super()..`, a function
            of the package or an unknown name, a callee that is handed `self`; and every load of
            `self.X` where X is defined by a `def` in some class of the package (a property or
            a bound method that numpy might call back)
  exit W    return / raise / assert / yield / await anywhere in the statement
  tryB / fin / tryE
            a `try: … finally: …` statement (no `except` / `else` clause) that is a direct child
            of the block is flattened: its body between tryB and fin, its `finally` clause
            between fin and tryE
  other W   x or m assigned again inside the block, an edit that is not a direct child of the
            block (or of such a try's body / finally clause), any other try / with / match /
            nested def inside the block

Steps of one statement are emitted in evaluation order: calls, then exit | edit | mask | comp.
Every step carries the line range of its statement (dynamic tie: harness/c06_window.py).
"""
import ast

BUILTINS = {"float", "int", "len", "print", "range", "abs", "min", "max", "sum", "bool", "str",
            "list", "tuple", "zip", "enumerate", "isinstance", "round", "sorted", "complex",
            "dict", "set", "divmod", "pow", "repr", "type", "id"}
NUMERIC_ROOTS = {"np", "numpy", "sp", "scipy", "math", "linalg", "stats", "special", "sparse"}
NDARRAY_METHODS = {"sum", "mean", "std", "var", "max", "min", "any", "all", "copy", "astype",
                   "reshape", "ravel", "flatten", "nonzero", "cumsum", "prod", "argmax", "argmin",
                   "argsort", "dot", "transpose", "squeeze", "round", "clip", "conj", "diagonal",
                   "trace", "tolist", "item", "fill", "take", "repeat", "view", "swapaxes"}
#  numpy functions that call back into Python code they are handed
CALLBACKS = {"vectorize", "apply_along_axis", "apply_over_axes", "frompyfunc", "fromfunction",
             "piecewise"}


def package_defs(mods):
    """every name defined by `def` inside a class of the package (methods, properties)"""
    out = set()
    for tree in mods.values():
        for node in ast.walk(tree):
            if isinstance(node, ast.ClassDef):
                for n in node.body:
                    if isinstance(n, (ast.FunctionDef, ast.AsyncFunctionDef)):
                        out.add(n.name)
    return out


def mentions(e, name):
    return any(isinstance(n, ast.Name) and n.id == name for n in ast.walk(e))


def hands_over(e, name):
    """the object `name` itself occurs in `e` (not merely as the base of `name.attr`: loads of
    attributes that are defined by a `def` are steps of their own)"""
    bases = {id(n.value) for n in ast.walk(e) if isinstance(n, ast.Attribute)}
    return any(isinstance(n, ast.Name) and n.id == name and id(n) not in bases
               for n in ast.walk(e))


def root_name(e):
    while isinstance(e, (ast.Attribute, ast.Subscript, ast.Call)):
        e = e.value if not isinstance(e, ast.Call) else e.func
    return e.id if isinstance(e, ast.Name) else None


class Block:
    def __init__(self, selfname, var, mask, defs):
        self.selfname, self.var, self.mask, self.defs = selfname, var, mask, defs

    def call_steps(self, node):
        """`call` steps of every sub-expression of `node`, in source order"""
        out = []
        for n in ast.walk(node):
            if isinstance(n, ast.Call):
                w = self.classify_call(n)
                if w:
                    out.append((n.lineno, n.col_offset, "call", w))
            elif isinstance(n, ast.Attribute) and isinstance(n.ctx, ast.Load) and \
                    isinstance(n.value, ast.Name) and n.value.id == self.selfname and \
                    n.attr in self.defs:
                out.append((n.lineno, n.col_offset, "call", f"self.{n.attr}"))
            elif isinstance(n, (ast.Lambda, ast.FunctionDef, ast.ClassDef, ast.Try, ast.With,
                                ast.AsyncWith, ast.AsyncFor)) or type(n).__name__ in ("Match", "TryStar"):
                out.append((n.lineno, n.col_offset, "other", type(n).__name__))
        seen, res = set(), []
        for ln, col, k, w in sorted(out):
            if (k, w, ln, col) not in seen:
                seen.add((k, w, ln, col))
                res.append((k, w))
        #  `self.m(..)`: the Call and the Attribute load name the same thing
        names = {w for k, w in res if k == "call"}
        return [(k, w) for k, w in res
                if not (k == "call" and w.startswith("self.") and w + "()" in names)]

    def classify_call(self, c):
        fn = c.func
        hands_self = self.selfname is not None and any(
            hands_over(a, self.selfname) for a in list(c.args) + [k.value for k in c.keywords])
        if isinstance(fn, ast.Name):
            if fn.id in BUILTINS and not hands_self:
                return None
            return fn.id + "()"
        if isinstance(fn, ast.Attribute):
            root = root_name(fn)
            if root in NUMERIC_ROOTS:
                if fn.attr in CALLBACKS or hands_self:
                    return ast.unparse(fn) + "()"
                return None
            if self.selfname is not None and mentions(fn.value, self.selfname):
                return ast.unparse(fn) + "()"
            if isinstance(fn.value, ast.Call) and isinstance(fn.value.func, ast.Name) \
                    and fn.value.func.id == "super":
                return ast.unparse(fn) + "()"
            if fn.attr in NDARRAY_METHODS and not hands_self:
                return None
            return ast.unparse(fn) + "()"
        return ast.unparse(fn)[:40] + "()"

    def is_mask_def(self, st):
        if not (isinstance(st, ast.Assign) and len(st.targets) == 1
                and isinstance(st.targets[0], ast.Name) and st.targets[0].id == self.mask):
            return False
        d = ast.unparse(st.value).replace(" ", "")
        v = self.var
        return d in (f"np.isinf({v})", f"numpy.isinf({v})", f"{v}==np.inf", f"{v}==numpy.inf")

    def assigns(self, st, name):
        for n in ast.walk(st):
            if isinstance(n, ast.Name) and n.id == name and isinstance(n.ctx, (ast.Store, ast.Del)):
                return True
        return False


def plain_try(st):
    return isinstance(st, ast.Try) and st.finalbody and not st.handlers and not st.orelse


def find_block(body, lines):
    """innermost statement list whose span contains all the given lines (`try … finally`
    statements are not descended into: they are flattened by the caller)"""
    for st in body:
        if plain_try(st):
            continue
        for field in ("body", "orelse", "finalbody"):
            sub = getattr(st, field, None)
            if isinstance(sub, list) and sub and isinstance(sub[0], ast.stmt):
                lo, hi = sub[0].lineno, max(getattr(s, "end_lineno", s.lineno) for s in sub)
                if all(lo <= ln <= hi for ln in lines):
                    return find_block(sub, lines)
        for h in getattr(st, "handlers", []) or []:
            sub = h.body
            lo, hi = sub[0].lineno, max(getattr(s, "end_lineno", s.lineno) for s in sub)
            if all(lo <= ln <= hi for ln in lines):
                return find_block(sub, lines)
    return body


def windows(mods, per_func, table):
    """one window per (function, restored variable)"""
    defs = package_defs(mods)
    groups = {}
    for r in table:
        if r["verdict"] == "restored":
            groups.setdefault((r["module"], r["cls"], r["func"], r["var"]), []).append(r)
    out = []
    for (mod, cls, func, var), rs in sorted(groups.items()):
        f, is_method, _ = per_func[(mod, cls, func)]
        params = [a.arg for a in f.args.args]
        selfname = params[0] if (is_method and params) else None
        rs = sorted(rs, key=lambda r: r["line"])
        form = rs[-1]["form"]
        mask = rs[-1]["index"] if form == "maskInf" else None
        edit_lines = [r["line"] for r in rs]
        consts = [r["value"] for r in rs]
        site = f"{mod}:{cls}.{func}:{var}"
        steps = []

        def emit(kind, what, st):
            steps.append({"kind": kind, "what": what, "line": st.lineno,
                          "end": getattr(st, "end_lineno", st.lineno)})
        block = find_block(f.body, edit_lines)
        B = Block(selfname, var, mask or "", defs)
        bound = [False]
        emitted_edits = set()

        def marker(kind, st, line):
            steps.append({"kind": kind, "what": "", "line": line, "end": line, "marker": True})

        def emit_stmts(stmts, depth):
            for st in stmts:
                if isinstance(st, ast.Expr) and isinstance(st.value, ast.Constant):
                    continue                    # docstring / bare constant: nothing is executed
                if plain_try(st) and depth == 0:
                    marker("tryB", st, st.lineno)
                    emit_stmts(st.body, 1)
                    marker("fin", st, -st.lineno)
                    emit_stmts(st.finalbody, 1)
                    marker("tryE", st, -st.lineno - 1)
                    continue
                is_edit = st.lineno in edit_lines
                #  the statement binding x (`x = self.path_lengths(..)`): obtains the shared object
                if not bound[0] and isinstance(st, ast.Assign) and len(st.targets) == 1 and \
                        isinstance(st.targets[0], ast.Name) and st.targets[0].id == var:
                    bound[0] = True
                    for k, w in B.call_steps(st):
                        emit(k, w, st)
                    continue
                if not is_edit and B.assigns(st, var):
                    emit("other", f"{var} assigned again", st)
                    continue
                for k, w in B.call_steps(st):
                    emit(k, w, st)
                exits = [n for n in ast.walk(st) if isinstance(
                    n, (ast.Return, ast.Raise, ast.Assert, ast.Yield, ast.YieldFrom, ast.Await))]
                for n in exits:
                    emit("exit", type(n).__name__.lower(), st)
                if is_edit:
                    emitted_edits.add(st.lineno)
                    emit("restore" if st.lineno == edit_lines[-1] else "edit", "", st)
                elif mask and B.is_mask_def(st):
                    emit("mask", "", st)
                elif mask and B.assigns(st, mask):
                    emit("other", f"{mask} assigned again", st)
                elif not exits:
                    emit("comp", "", st)
        emit_stmts(block, 0)
        if emitted_edits != set(edit_lines):
            steps.append({"kind": "other", "what": "edit in a nested block", "line": f.lineno,
                          "end": f.lineno})
        out.append({"site": site, "form": form, "var": var, "mask": mask, "consts": consts,
                    "steps": steps, "module": mod, "cls": cls, "func": func})
    return out


def lean_text(ws):
    def step(s):
        k = s["kind"]
        if k in ("call", "exit", "other"):
            return f'.{k} "{s["what"]}"'.replace("\\", "")
        return "." + k
    ents = []
    for w in ws:
        ents.append(f'  ⟨"{w["site"]}", .{w["form"]}, [{", ".join(step(s) for s in w["steps"])}]⟩')
    return "def windows : List Window := [\n" + ",\n".join(ents) + "]\n"
