#!/usr/bin/env python3
"""Structural translator for C18: regenerates lean/Pyunicorn/Generated/StructC18.lean from the
*current* working tree on every run.

What it reads

  src/pyunicorn/core/_ext/src_numerics.c  (C text; a small tokenizer / recursive-descent parser)
    _vertex_current_flow_betweenness_fast -> vcfbLoops (the `for` nest: variable, lower bound,
                                             upper bound, in nesting order), vcfbSkip (condition of
                                             the `continue`), vcfbTerm (right-hand side of `J += ..`
                                             as a function of the seven values it reads), vcfbNorm
                                             (right-hand side of `VCFB += ..`)
    _edge_current_flow_betweenness_fast   -> ecfbLoops, ecfbTerm, ecfbNorm
    every subscript must be row-major `row*N+col`; the parameter of the generated term is named
    after (array, row, col), so a transposed access (`R[s*N+j]` for `R[j*N+s]`) changes the
    generated definition and breaks `*_matches_source`.

  src/pyunicorn/core/resistive_network.py  (Python `ast`)
    ResNetwork.update_resistances -> updResCalls: the `self.<method>()` calls in order, and
                                     updResSetsProperty: `self.resistances = resistances` precedes them
    ResNetwork.update_admittance  -> admLoopOver: where the loop variable of the filling loop comes
                                     from (`self.edge_list()` through `edgeList`), admTargetIndex /
                                     admValueIndex: the subscripts of the assignment inside it
    ResNetwork.update_R           -> updRInput (argument of `np.linalg.pinv`), updRResetsStore,
                                     rcondEpsType (`np.finfo(<type>).eps`), rcondExpr (the cut-off
                                     as a function of the matrix size and that eps)
    ResNetwork.__init__           -> initCallsUpdate / initStoreNone (`update_resistances(...)`,
                                     then `_effective_resistances = None`)

Arithmetic is translated into exact rationals (`double` / `float` rounding and the final
`(float)` cast of the edge kernel are not modelled; `N*(N-1)` is an `int` product: exact below
N = 46341, where R alone would need 8.6 GB).  Anything outside the supported fragment raises and
is reported as a broken tie.
"""
import ast
import os
import re
import sys

REPO = os.environ.get("VERIF_REPO", "/repo")
OUT = sys.argv[1]
CFILE = "src/pyunicorn/core/_ext/src_numerics.c"
PYFILE = "src/pyunicorn/core/resistive_network.py"


class Shape(Exception):
    pass


def need(c, msg):
    if not c:
        raise Shape(msg)


# ----------------------------------------------------------------------------
# C: tokenizer and parser for the fragment used by the two kernels
# ----------------------------------------------------------------------------

TOK = re.compile(r"\s*(?:(\d+\.\d*|\.\d+|\d+)|([A-Za-z_]\w*)|(\+\+|\+=|==|\|\||&&|<=|>=|!=|[-+*/()\[\]{};,<>=!]))")


def c_function(src, name):
    src = re.sub(r"/\*.*?\*/", " ", src, flags=re.S)
    src = re.sub(r"//[^\n]*", " ", src)
    src = src.replace("\\\n", " ")
    m = re.search(r"\b" + re.escape(name) + r"\s*\(([^)]*)\)\s*\{", src)
    need(m, f"C function {name} not found in {CFILE}")
    depth, k = 1, m.end()
    while depth:
        need(k < len(src), f"{name}: unbalanced braces")
        depth += {"{": 1, "}": -1}.get(src[k], 0)
        k += 1
    params = [p.strip() for p in m.group(1).split(",")]
    return params, src[m.end():k - 1]


def tokenize(text):
    toks, k = [], 0
    text = text.rstrip()
    while k < len(text):
        m = TOK.match(text, k)
        need(m, f"C: cannot tokenize at `{text[k:k + 30]}`")
        if m.group(1):
            toks.append(("num", m.group(1)))
        elif m.group(2):
            toks.append(("id", m.group(2)))
        else:
            toks.append(("op", m.group(3)))
        k = m.end()
    return toks


class P:
    """statements: decl | for | if/else | continue | return | assign;  expressions: || == < + - * /
    unary -, casts `(float)`/`(double)`, calls, subscripts"""
    TYPES = ("int", "double", "float")

    def __init__(self, toks):
        self.t, self.k = toks, 0

    def peek(self, off=0):
        return self.t[self.k + off] if self.k + off < len(self.t) else ("eof", "")

    def take(self, val=None):
        tok = self.peek()
        need(val is None or tok[1] == val, f"C: expected `{val}`, found `{tok[1]}`")
        self.k += 1
        return tok

    def block(self):
        out = []
        if self.peek()[1] == "{":
            self.take("{")
            while self.peek()[1] != "}":
                out.append(self.stmt())
            self.take("}")
        else:
            out.append(self.stmt())
        return out

    def stmt(self):
        kind, v = self.peek()
        if v in self.TYPES:
            self.take()
            name = self.take()[1]
            init = None
            if self.peek()[1] == "=":
                self.take("=")
                init = self.expr()
            self.take(";")
            return ("decl", v, name, init)
        if v == "for":
            self.take()
            self.take("(")
            var = self.take()[1]
            self.take("=")
            lo = self.expr()
            self.take(";")
            cond = self.expr()
            self.take(";")
            v2 = self.take()[1]
            self.take("++")
            self.take(")")
            need(v2 == var and cond[0] == "<" and cond[1] == ("var", var),
                 f"C: for loop over `{var}` is not of the form for(x=lo; x<hi; x++)")
            return ("for", var, lo, cond[2], self.block())
        if v == "if":
            self.take()
            self.take("(")
            c = self.expr()
            self.take(")")
            then = self.block()
            els = []
            if self.peek()[1] == "else":
                self.take()
                els = self.block()
            return ("if", c, then, els)
        if v == "continue":
            self.take()
            self.take(";")
            return ("continue",)
        if v == "return":
            self.take()
            e = self.expr()
            self.take(";")
            return ("return", e)
        target = self.postfix()
        op = self.take()[1]
        need(op in ("=", "+="), f"C: unsupported statement operator `{op}`")
        e = self.expr()
        self.take(";")
        return ("assign", op, target, e)

    def expr(self):
        return self.binary(0)

    LEVELS = [("||",), ("==",), ("<",), ("+", "-"), ("*", "/")]

    def binary(self, lvl):
        if lvl == len(self.LEVELS):
            return self.unary()
        left = self.binary(lvl + 1)
        while self.peek()[0] == "op" and self.peek()[1] in self.LEVELS[lvl]:
            op = self.take()[1]
            left = (op, left, self.binary(lvl + 1))
        return left

    def unary(self):
        if self.peek()[1] == "-":
            self.take()
            return ("neg", self.unary())
        if self.peek()[1] == "(" and self.peek(1)[1] in self.TYPES and self.peek(2)[1] == ")":
            self.take()
            ty = self.take()[1]
            self.take(")")
            return ("cast", ty, self.unary())
        return self.postfix()

    def postfix(self):
        kind, v = self.take()
        if kind == "num":
            return ("num", v)
        if v == "(":
            e = self.expr()
            self.take(")")
            return e
        need(kind == "id", f"C: unexpected token `{v}`")
        if self.peek()[1] == "(":
            self.take()
            args = []
            while self.peek()[1] != ")":
                args.append(self.expr())
                if self.peek()[1] == ",":
                    self.take()
            self.take(")")
            return ("call", v, args)
        if self.peek()[1] == "[":
            self.take()
            idx = self.expr()
            self.take("]")
            return ("sub", v, idx)
        return ("var", v)


def c_text(e):
    k = e[0]
    if k == "num":
        return e[1]
    if k == "var":
        return e[1]
    if k == "neg":
        return f"-{c_text(e[1])}"
    if k == "cast":
        return f"({e[1]}) {c_text(e[2])}"
    if k == "call":
        return f"{e[1]}({', '.join(map(c_text, e[2]))})"
    if k == "sub":
        return f"{e[1]}[{c_text(e[2])}]"
    return f"({c_text(e[1])} {k} {c_text(e[2])})"


def rowmajor(idx, where):
    """`row*N+col` -> (row, col)"""
    need(idx[0] == "+" and idx[1][0] == "*" and idx[1][1][0] == "var" and idx[1][2] == ("var", "N")
         and idx[2][0] == "var", f"{where}: subscript `{c_text(idx)}` is not row-major `row*N+col`")
    return idx[1][1][1], idx[2][1]


def lean_num(text):
    if "." in text:
        a, b = text.split(".")
        b = b or "0"
        num, den = int(a + b), 10 ** len(b)
        return f"(({num} : Rat) / {den})" if den != 1 and int(b) != 0 else f"({int(a)} : Rat)"
    return f"({int(text)} : Rat)"


def lean_rat(e, params, where):
    """expression -> Lean term over Rat; subscripts become parameters named array_row_col"""
    k = e[0]
    if k == "num":
        return lean_num(e[1])
    if k == "var":
        if e[1] == "N":
            params.setdefault("N", "Int")
            return "(N : Rat)"
        params.setdefault(e[1], "Rat")
        return e[1]
    if k == "sub":
        r, c = rowmajor(e[2], where)
        name = f"{e[1]}_{r}{c}"
        params.setdefault(name, "Rat")
        return name
    if k == "neg":
        return f"(- {lean_rat(e[1], params, where)})"
    if k == "cast":          # (float) / (double): rounding not modelled
        return lean_rat(e[2], params, where)
    if k == "call":
        need(e[1] in ("fabs", "fabsf") and len(e[2]) == 1, f"{where}: call `{c_text(e)}`")
        return f"(fabs {lean_rat(e[2][0], params, where)})"
    if k in "+-*/":
        if k == "*" and e[1] == ("var", "N") and e[2] == ("-", ("var", "N"), ("num", "1")):
            params.setdefault("N", "Int")
            return "(((N * (N - 1) : Int)) : Rat)"      # int product, then converted
        return f"({lean_rat(e[1], params, where)} {k} {lean_rat(e[2], params, where)})"
    raise Shape(f"{where}: `{c_text(e)}` outside the arithmetic fragment")


def lean_cond(e, where):
    k = e[0]
    if k == "||":
        return f"({lean_cond(e[1], where)} ∨ {lean_cond(e[2], where)})"
    if k == "==" and e[1][0] == "var" and e[2][0] == "var":
        return f"({e[1][1]} = {e[2][1]})"
    raise Shape(f"{where}: condition `{c_text(e)}`")


def loops_of(stmts):
    """the chain of nested for loops (each level must hold exactly one loop)"""
    out = []
    while True:
        fs = [s for s in flatten_ifs(stmts) if s[0] == "for"]
        if not fs:
            return out
        need(len(fs) == 1, "C: more than one loop at one nesting level")
        f = fs[0]
        out.append((f[1], c_text(f[2]), c_text(f[3])))
        stmts = f[4]


def flatten_ifs(stmts):
    out = []
    for s in stmts:
        if s[0] == "if":
            out += flatten_ifs(s[2]) + flatten_ifs(s[3])
        else:
            out.append(s)
    return out


def walk(stmts):
    for s in stmts:
        yield s
        if s[0] == "for":
            yield from walk(s[4])
        elif s[0] == "if":
            yield from walk(s[2])
            yield from walk(s[3])


def the(items, what):
    items = list(items)
    need(len(items) == 1, f"C: expected exactly one {what}, found {len(items)}")
    return items[0]


def emit_def(name, doc, params, order, ret, body):
    ps = " ".join(f"({p} : {params[p]})" for p in order if p in params)
    extra = [p for p in params if p not in order]
    need(not extra, f"{name}: unexpected free names {extra}")
    return f"/-- {doc} -/\ndef {name} {ps} : {ret} :=\n  {body}\n"


def lean_str_list(xs):
    return "[" + ", ".join('"' + x + '"' for x in xs) + "]"


def c_part(out):
    src = open(os.path.join(REPO, CFILE)).read()
    # ---- vertex kernel
    params, body = c_function(src, "_vertex_current_flow_betweenness_fast")
    need([p.split()[-1].lstrip("*") for p in params] == ["N", "Is", "It", "admittance", "R", "i"],
         f"vertex kernel: parameter list {params}")
    st = P(tokenize(body)).block() if False else P(tokenize("{" + body + "}")).block()
    loops = loops_of(st)
    out.append("/-- the `for` nest of `_vertex_current_flow_betweenness_fast`: (variable, lower bound, "
               "upper bound), outermost first -/\ndef vcfbLoops : List (String × String × String) :=\n  ["
               + ", ".join(f'("{a}", "{b}", "{c}")' for a, b, c in loops) + "]\n")
    iff = the((s for s in walk(st) if s[0] == "if"), "`if` in the vertex kernel")
    need(iff[2] == [("continue",)], "vertex kernel: the `if` branch is not a bare `continue`")
    out.append(emit_def("vcfbSkip", f"`if({c_text(iff[1])}) continue;`", {"i": "Nat", "t": "Nat", "s": "Nat"},
                        ["i", "t", "s"], "Bool", f"decide {lean_cond(iff[1], 'vcfbSkip')}"))
    accJ = the((s for s in walk(st) if s[0] == "assign" and s[1] == "+=" and s[2] == ("var", "J")),
               "`J += ...` in the vertex kernel")
    ps = {}
    term = lean_rat(accJ[3], ps, "vcfbTerm")
    order = ["Is", "It", "admittance_ij", "R_is", "R_js", "R_jt", "R_it"]
    out.append(emit_def("vcfbTerm", f"`J += {c_text(accJ[3])}`", ps, order, "Rat", term))
    accV = the((s for s in walk(st) if s[0] == "assign" and s[1] == "+=" and s[2] == ("var", "VCFB")),
               "`VCFB += ...`")
    ps = {}
    norm = lean_rat(accV[3], ps, "vcfbNorm")
    out.append(emit_def("vcfbNorm", f"`VCFB += {c_text(accV[3])}`", ps, ["J", "N"], "Rat", norm))
    # J is reset inside the s loop, before the test
    sloop = [s for s in walk(st) if s[0] == "for" and s[1] == "s"][0]
    need(sloop[4][0] == ("assign", "=", ("var", "J"), ("num", "0.0")),
         "vertex kernel: `J = 0.0` is not the first statement of the loop over s")
    need(any(s[0] == "return" and s[1] == ("var", "VCFB") for s in st), "vertex kernel: return VCFB")
    # ---- edge kernel
    params, body = c_function(src, "_edge_current_flow_betweenness_fast")
    need([p.split()[-1].lstrip("*") for p in params] == ["N", "Is", "It", "admittance", "R", "ECFB"],
         f"edge kernel: parameter list {params}")
    st = P(tokenize("{" + body + "}")).block()
    loops = loops_of(st)
    out.append("/-- the `for` nest of `_edge_current_flow_betweenness_fast` -/\n"
               "def ecfbLoops : List (String × String × String) :=\n  ["
               + ", ".join(f'("{a}", "{b}", "{c}")' for a, b, c in loops) + "]\n")
    accJ = the((s for s in walk(st) if s[0] == "assign" and s[1] == "+=" and s[2] == ("var", "J")),
               "`J += ...` in the edge kernel")
    ps = {}
    term = lean_rat(accJ[3], ps, "ecfbTerm")
    out.append(emit_def("ecfbTerm", f"`J += {c_text(accJ[3])}`", ps, order, "Rat", term))
    accE = the((s for s in walk(st) if s[0] == "assign" and s[2][0] == "sub" and s[2][1] == "ECFB"),
               "store into ECFB")
    need(rowmajor(accE[2][2], "ECFB store") == ("i", "j"), "edge kernel: store is not ECFB[i*N+j]")
    ps = {}
    norm = lean_rat(accE[3], ps, "ecfbNorm")
    out.append(emit_def("ecfbNorm", f"`ECFB[i*N+j] {accE[1]} {c_text(accE[3])}` (the output array "
                        "arrives zero-filled)", ps, ["J", "N"], "Rat", norm))
    jloop = [s for s in walk(st) if s[0] == "for" and s[1] == "j"][0]
    need(jloop[4][0] == ("assign", "=", ("var", "J"), ("num", "0.0")),
         "edge kernel: `J = 0.0` is not the first statement of the loop over j")


# ----------------------------------------------------------------------------
# Python: update_resistances / update_admittance / update_R / __init__
# ----------------------------------------------------------------------------

def py_method(cls, name):
    for n in cls.body:
        if isinstance(n, ast.FunctionDef) and n.name == name:
            return n
    raise Shape(f"ResNetwork.{name} not found")


def body_of(fn):
    return [s for s in fn.body
            if not (isinstance(s, ast.Expr) and isinstance(s.value, ast.Constant))]


def self_call(st):
    if isinstance(st, ast.Expr) and isinstance(st.value, ast.Call) \
            and isinstance(st.value.func, ast.Attribute) \
            and ast.unparse(st.value.func.value) == "self":
        return st.value.func.attr
    return None


def py_part(out):
    path = os.path.join(REPO, PYFILE)
    tree = ast.parse(open(path).read(), path)
    cls = [n for n in tree.body if isinstance(n, ast.ClassDef) and n.name == "ResNetwork"]
    need(cls, "class ResNetwork not found")
    cls = cls[0]
    # ---- update_resistances
    b = body_of(py_method(cls, "update_resistances"))
    calls, setpos = [], None
    for k, st in enumerate(b):
        if self_call(st):
            need(not st.value.args and not st.value.keywords,
                 f"update_resistances: `{ast.unparse(st)}` takes arguments")
            calls.append((k, self_call(st)))
        elif isinstance(st, ast.Assign) and ast.unparse(st.targets[0]) == "self.resistances":
            need(ast.unparse(st.value) == "resistances",
                 f"update_resistances: `{ast.unparse(st)}`")
            setpos = k
        elif isinstance(st, ast.Return):
            raise Shape("update_resistances: early return")
        elif isinstance(st, ast.If):
            need(not any(isinstance(x, (ast.Return, ast.Raise)) or
                         (isinstance(x, ast.Expr) and self_call(x)) for x in ast.walk(st)),
                 f"update_resistances: conditional control flow `{ast.unparse(st.test)}`")
    known = ("update_admittance", "update_R")
    out.append("/-- a `self.<method>()` call inside `update_resistances` -/\n"
               "inductive Call where\n  | update_admittance\n  | update_R\n"
               "  | other (name : String)\n")
    out.append("/-- the `self.<method>()` calls of `update_resistances`, in order -/\n"
               "def updResCalls : List Call := ["
               + ", ".join(f".{c}" if c in known else f'.other "{c}"' for _, c in calls) + "]\n")
    out.append("/-- `self.resistances = resistances` is executed, unconditionally, before them -/\n"
               f"def updResSetsProperty : Bool := "
               f"{'true' if setpos is not None and all(setpos < k for k, _ in calls) else 'false'}\n")
    # ---- update_admittance
    fn = py_method(cls, "update_admittance")
    loops = [s for s in body_of(fn) if isinstance(s, ast.For)]
    need(len(loops) == 1, "update_admittance: expected exactly one filling loop "
         f"(found {len(loops)})")
    lp = loops[0]
    it = ast.unparse(lp.iter)
    src_of = {ast.unparse(s.targets[0]): s.value for s in body_of(fn)
              if isinstance(s, ast.Assign) and len(s.targets) == 1}
    origin = src_of.get(it)
    origin = ast.unparse(origin) if origin is not None else it
    m = re.fullmatch(r"list\((.*)\)", origin)
    origin = m.group(1) if m else origin
    need(len(lp.body) == 1 and isinstance(lp.body[0], ast.Assign)
         and isinstance(lp.body[0].targets[0], ast.Subscript)
         and ast.unparse(lp.body[0].targets[0].value) == "self.sparse_Adm",
         "update_admittance: the loop body is not one assignment into self.sparse_Adm")
    asg = lp.body[0]
    tgt_idx = [ast.unparse(e) for e in asg.targets[0].slice.elts]
    subs = [n for n in ast.walk(asg.value) if isinstance(n, ast.Subscript)
            and ast.unparse(n.value) == "self.resistances"]
    need(len(subs) == 1, "update_admittance: the value does not read self.resistances once")
    val_idx = [ast.unparse(e) for e in subs[0].slice.elts]
    var = ast.unparse(lp.target)
    out.append("/-- what the filling loop of `update_admittance` iterates over -/\n"
               f'def admLoopOver : String := "{origin}"\n')
    out.append(f"/-- loop variable `{var}`: subscripts of the target `self.sparse_Adm[..]` and of the "
               "value `self.resistances[..]` -/\n"
               f"def admTargetIndex : List String := {lean_str_list(tgt_idx)}\n"
               f"def admValueIndex : List String := {lean_str_list(val_idx)}\n")
    # ---- update_R
    fn = py_method(cls, "update_R")
    b = body_of(fn)
    pinv = [n for n in ast.walk(fn) if isinstance(n, ast.Call)
            and ast.unparse(n.func) == "np.linalg.pinv"]
    need(len(pinv) == 1 and len(pinv[0].args) == 1, "update_R: one call np.linalg.pinv(<matrix>, ...)")
    arg = ast.unparse(pinv[0].args[0])
    src_of = {ast.unparse(s.targets[0]): ast.unparse(s.value) for s in b
              if isinstance(s, ast.Assign) and len(s.targets) == 1}
    out.append("/-- the matrix handed to `np.linalg.pinv` -/\n"
               f'def updRInput : String := "{src_of.get(arg, arg)}"\n')
    kws = {k.arg: k.value for k in pinv[0].keywords}
    need(set(kws) <= {"rcond"}, f"update_R: keywords of pinv {sorted(kws)}")
    if "rcond" in kws:
        e = kws["rcond"]
        fin = [n for n in ast.walk(e) if isinstance(n, ast.Attribute) and n.attr == "eps"
               and isinstance(n.value, ast.Call) and ast.unparse(n.value.func) == "np.finfo"]
        need(len(fin) == 1, f"update_R: rcond `{ast.unparse(e)}` has no single np.finfo(..).eps")
        ety = ast.unparse(fin[0].value.args[0])
        txt = ast.unparse(e).replace(ast.unparse(fin[0]), "eps")
        txt = txt.replace(f"max({arg}.shape)", "size")
        need(re.fullmatch(r"[\w\s*()]+", txt) and "shape" not in txt,
             f"update_R: rcond `{ast.unparse(e)}` outside the fragment")
        lean = txt.replace("size", "(size : Rat)")
        out.append(f"/-- `rcond={ast.unparse(e)}` -/\n"
                   f'def rcondEpsType : String := "{ety}"\n'
                   f"def rcondExpr (size : Nat) (eps : Rat) : Rat := {lean}\n")
    else:
        out.append('def rcondEpsType : String := "default-1e-15"\n'
                   "def rcondExpr (size : Nat) (eps : Rat) : Rat := (1 : Rat) / 10 ^ 15\n")
    reset = [k for k, s in enumerate(b) if isinstance(s, ast.Assign)
             and ast.unparse(s.targets[0]) == "self._effective_resistances"
             and ast.unparse(s.value) == "None"]
    setR = [k for k, s in enumerate(b) if isinstance(s, ast.Assign)
            and ast.unparse(s.targets[0]) == "self.sparse_R"]
    need(len(setR) == 1, "update_R: one assignment to self.sparse_R")
    out.append("/-- `self._effective_resistances = None` at top level of `update_R` -/\n"
               f"def updRResetsStore : Bool := {'true' if reset else 'false'}\n")
    # ---- __init__
    b = body_of(py_method(cls, "__init__"))
    upd = [k for k, s in enumerate(b) if self_call(s) == "update_resistances"
           and [ast.unparse(a) for a in s.value.args] == ["resistances"]]
    none = [k for k, s in enumerate(b) if isinstance(s, ast.Assign)
            and ast.unparse(s.targets[0]) == "self._effective_resistances"
            and ast.unparse(s.value) == "None"]
    out.append("/-- `__init__` ends with `self.update_resistances(resistances)` and "
               "`self._effective_resistances = None` -/\n"
               f"def initCallsUpdate : Bool := {'true' if len(upd) == 1 else 'false'}\n"
               f"def initStoreNone : Bool := "
               f"{'true' if upd and none and none[-1] > upd[0] else 'false'}\n")


# ----------------------------------------------------------------------------
# Python: the method bodies as Lean functions on the record `Py` (round 5)
# ----------------------------------------------------------------------------
# attribute -> field of `Pyunicorn.Circuit.Py` holding a matrix
MAT_ATTRS = {"sparse_Adm": "sparse_Adm", "sparse_R": "sparse_R", "resistances": "resistances"}
STORE_ATTR = "_effective_resistances"
# attributes outside the rational model: the igraph twin of the admittance matrix (no query of the
# property reads it) and the complex flag (selects a dtype only)
IGNORED_ATTRS = {"adm_graph", "flagComplex"}
GETTERS = ("get_admittance", "get_R", "admittance_lapacian")
MUTATORS = ("update_admittance", "update_R", "update_resistances")


def src(n):
    return ast.unparse(n).replace("\n", " ")


def is_self_attr(n, attr=None):
    return isinstance(n, ast.Attribute) and isinstance(n.value, ast.Name) and n.value.id == "self" \
        and (attr is None or n.attr == attr)


def py_expr(e, env, where):
    """Python expression -> (Lean term, kind); kinds: mat, vec, rat, nat, edges, edge"""
    if isinstance(e, ast.Name):
        need(e.id in env, f"{where}: unknown name `{e.id}`")
        return e.id, env[e.id]
    if is_self_attr(e, "N"):
        return "self.N", "nat"
    if is_self_attr(e) and e.attr in MAT_ATTRS:
        return f"self.{MAT_ATTRS[e.attr]}", "mat"
    if isinstance(e, ast.Constant) and isinstance(e.value, (int, float)) \
            and not isinstance(e.value, bool):
        return lean_num(repr(float(e.value)) if isinstance(e.value, float) else str(e.value)), "rat"
    if isinstance(e, ast.Subscript):
        base, kind = py_expr(e.value, env, where)
        if kind == "edge":
            need(isinstance(e.slice, ast.Constant) and e.slice.value in (0, 1),
                 f"{where}: subscript `{src(e)}`")
            return f"{base}.{e.slice.value + 1}", "nat"
        if kind == "mat":
            need(isinstance(e.slice, ast.Tuple) and len(e.slice.elts) == 2,
                 f"{where}: subscript `{src(e)}`")
            ij = [py_expr(x, env, where) for x in e.slice.elts]
            need(all(k == "nat" for _, k in ij), f"{where}: subscript `{src(e)}`")
            return f"({base} {ij[0][0]} {ij[1][0]})", "rat"
        raise Shape(f"{where}: subscript `{src(e)}`")
    if isinstance(e, ast.BinOp):
        a, ka = py_expr(e.left, env, where)
        b, kb = py_expr(e.right, env, where)
        if isinstance(e.op, ast.Sub) and ka == kb == "mat":
            return f"(matSub {a} {b})", "mat"
        ops = {ast.Add: "+", ast.Sub: "-", ast.Mult: "*", ast.Div: "/"}
        if type(e.op) in ops and ka == kb == "rat":
            return f"({a} {ops[type(e.op)]} {b})", "rat"
        raise Shape(f"{where}: `{src(e)}` outside the fragment")
    if isinstance(e, ast.Call):
        f = src(e.func)
        args = e.args
        kws = {k.arg: k.value for k in e.keywords}
        if is_self_attr(e.func) and not args and not kws:
            m = e.func.attr
            if m == "edge_list":
                return "self.edge_list", "edges"
            if m in GETTERS:
                return f"({m} self)", "mat"
        if f == "list" and len(args) == 1 and not kws:
            t, k = py_expr(args[0], env, where)
            need(k == "edges", f"{where}: `{src(e)}`")
            return t, k
        if isinstance(e.func, ast.Attribute) and e.func.attr == "toarray" and not args and not kws:
            t, k = py_expr(e.func.value, env, where)
            need(k == "mat", f"{where}: `{src(e)}`")
            return t, k
        if f == "sparse.lil_matrix" and len(args) == 1 and set(kws) <= {"dtype"}:
            if isinstance(args[0], ast.Tuple):
                need([src(x) for x in args[0].elts] == ["self.N", "self.N"],
                     f"{where}: shape of `{src(e)}`")
                return "lilZeros", "mat"
            need(not kws, f"{where}: `{src(e)}`")
            t, k = py_expr(args[0], env, where)
            need(k == "mat", f"{where}: `{src(e)}`")
            return t, k
        if f == "np.linalg.pinv" and len(args) == 1 and set(kws) <= {"rcond"}:
            t, k = py_expr(args[0], env, where)      # the cut-off: `rcond_matches_source`
            need(k == "mat", f"{where}: `{src(e)}`")
            return f"(npPinv pinv self.N {t})", "mat"
        if f == "np.diag" and len(args) == 1 and not kws:
            t, k = py_expr(args[0], env, where)
            need(k == "vec", f"{where}: `{src(e)}`")
            return f"(npDiag {t})", "mat"
        if f == "sum" and len(args) == 1 and not kws:
            t, k = py_expr(args[0], env, where)
            need(k == "mat", f"{where}: `{src(e)}`")
            return f"(pySum self.N {t})", "vec"
    raise Shape(f"{where}: `{src(e)}` outside the fragment")


def skippable_if(st):
    """conditionals that only choose a dtype, convert the argument to an array, or print"""
    for x in st.body + st.orelse:
        if isinstance(x, ast.Assign) and len(x.targets) == 1 and isinstance(x.targets[0], ast.Name):
            if x.targets[0].id == "dtype":
                continue
            if x.targets[0].id == "resistances" and src(x.value) == "np.array(resistances)" \
                    and src(st.test) == "not isinstance(resistances, np.ndarray)":
                continue
        if isinstance(x, ast.Expr) and isinstance(x.value, ast.Call) and src(x.value.func) == "print":
            continue
        return False
    return True


def py_stmts(stmts, env, where, getter=False):
    """statement list -> Lean `let` lines (the object is threaded through as `self`)"""
    lines = []
    env = dict(env)
    for st in stmts:
        text = src(st)
        w = f"{where}: `{text[:70]}`"
        if isinstance(st, ast.Expr) and isinstance(st.value, ast.Constant):
            continue
        if isinstance(st, ast.Return):
            need(getter and st is stmts[-1] and st.value is not None, f"{w}: return")
            t, k = py_expr(st.value, env, w)
            need(k == "mat", f"{w}: returns a {k}")
            lines.append(t)
            return lines
        need(not getter, f"{w}: statement in a getter")
        if isinstance(st, ast.If):
            need(skippable_if(st), f"{w}: conditional control flow")
            lines.append(f"-- skipped (dtype / array conversion / print only): if {src(st.test)}: …")
            continue
        if isinstance(st, ast.Assign):
            need(len(st.targets) == 1, w)
            tg = st.targets[0]
            if is_self_attr(tg):
                if tg.attr in IGNORED_ATTRS:
                    lines.append(f"-- not modelled: {text[:90]}")
                    continue
                if tg.attr == STORE_ATTR:
                    need(src(st.value) == "None", f"{w}: the store is assigned a value")
                    lines.append("let self := { self with effective_resistances := none }")
                    continue
                need(tg.attr in MAT_ATTRS, f"{w}: attribute outside the model")
                if src(st.value) == "None":
                    t = "pyNoneMat"
                else:
                    t, k = py_expr(st.value, env, w)
                    need(k == "mat", f"{w}: a {k} assigned to a matrix attribute")
                lines.append(f"let self := {{ self with {MAT_ATTRS[tg.attr]} := {t} }}")
                continue
            if isinstance(tg, ast.Name):
                need(tg.id not in ("self", "pinv"), w)
                t, k = py_expr(st.value, env, w)
                lines.append(f"let {tg.id} := {t}")
                env[tg.id] = k
                continue
            raise Shape(f"{w}: assignment target")
        if isinstance(st, ast.For):
            need(isinstance(st.target, ast.Name) and not st.orelse, f"{w}: loop header")
            it, k = py_expr(st.iter, env, w)
            need(k == "edges", f"{w}: loop over a {k}")
            var = st.target.id
            need(len(st.body) == 1 and isinstance(st.body[0], ast.Assign)
                 and len(st.body[0].targets) == 1
                 and isinstance(st.body[0].targets[0], ast.Subscript)
                 and is_self_attr(st.body[0].targets[0].value)
                 and st.body[0].targets[0].value.attr in MAT_ATTRS
                 and isinstance(st.body[0].targets[0].slice, ast.Tuple)
                 and len(st.body[0].targets[0].slice.elts) == 2,
                 f"{w}: the loop body is not one assignment `self.<matrix>[a, b] = value`")
            asg = st.body[0]
            benv = dict(env, **{var: "edge"})
            fld = MAT_ATTRS[asg.targets[0].value.attr]
            ij = [py_expr(x, benv, w) for x in asg.targets[0].slice.elts]
            need(all(kk == "nat" for _, kk in ij), f"{w}: target subscript")
            v, kv = py_expr(asg.value, benv, w)
            need(kv == "rat", f"{w}: stored value is a {kv}")
            lines.append(f"let self := {it}.foldl (fun (self : Py) {var} =>")
            lines.append(f"    {{ self with {fld} := setItem self.{fld} {ij[0][0]} {ij[1][0]} {v} }}) self")
            continue
        if isinstance(st, ast.Expr) and isinstance(st.value, ast.Call):
            c = st.value
            if is_self_attr(c.func) and c.func.attr in MUTATORS and not c.keywords:
                args = [py_expr(a, env, w) for a in c.args]
                need([k for _, k in args] == (["mat"] if c.func.attr == "update_resistances" else []),
                     f"{w}: arguments")
                lines.append(f"let self := {c.func.attr} pinv self"
                             + "".join(f" {t}" for t, _ in args))
                continue
            if isinstance(c.func, ast.Attribute) and is_self_attr(c.func.value) \
                    and c.func.value.attr in IGNORED_ATTRS:
                lines.append(f"-- not modelled: {text[:90]}")
                continue
            if src(c.func) == "print":
                continue
        raise Shape(f"{w}: statement outside the fragment")
    need(not getter, f"{where}: no return")
    lines.append("self")
    return lines


BODY_STUBS = {
    "get_admittance": "def get_admittance (self : Py) : Mat := pyNoneMat\n",
    "get_R": "def get_R (self : Py) : Mat := pyNoneMat\n",
    "admittance_lapacian": "def admittance_lapacian (self : Py) : Mat := pyNoneMat\n",
    "update_admittance": "def update_admittance (pinv : Nat → Mat → LMat) (self : Py) : Py := self\n",
    "update_R": "def update_R (pinv : Nat → Mat → LMat) (self : Py) : Py := self\n",
    "update_resistances": "def update_resistances (pinv : Nat → Mat → LMat) (self : Py) "
                          "(resistances : Mat) : Py := self\n",
    "init_tail": "def init_tail (pinv : Nat → Mat → LMat) (self : Py) (resistances : Mat) : Py := self\n",
}


def py_bodies(out):
    """the method bodies; a method outside the fragment gets a stub (the driver still builds) and
    `pyBodiesTranslated = false` (the tie theorems do not)"""
    path = os.path.join(REPO, PYFILE)
    tree = ast.parse(open(path).read(), path)
    cls = [n for n in tree.body if isinstance(n, ast.ClassDef) and n.name == "ResNetwork"]
    need(cls, "class ResNetwork not found")
    cls = cls[0]
    errors = []

    def emit(name, make):
        try:
            out.append(make())
        except Shape as e:
            errors.append(str(e))
            out.append(f"/-- STUB: `{name}` is outside the translated fragment -/\n" + BODY_STUBS[name])

    def getter(name):
        def make():
            fn = py_method(cls, name)
            need([a.arg for a in fn.args.args] == ["self"], f"{name}: parameters")
            ls = py_stmts(fn.body, {}, name, getter=True)
            return (f"/-- `ResNetwork.{name}`: `{src(body_of(fn)[-1])}` -/\n"
                    f"def {name} (self : Py) : Mat :=\n  " + "\n  ".join(ls) + "\n")
        emit(name, make)

    def mutator(name, params):
        def make():
            fn = py_method(cls, name)
            need([a.arg for a in fn.args.args] == ["self"] + params, f"{name}: parameters")
            ls = py_stmts(fn.body, {p: "mat" for p in params}, name)
            return (f"/-- `ResNetwork.{name}`, statement by statement -/\n"
                    f"def {name} (pinv : Nat → Mat → LMat) (self : Py)"
                    + "".join(f" ({p} : Mat)" for p in params) + " : Py :=\n  "
                    + "\n  ".join(ls) + "\n")
        emit(name, make)

    for g in GETTERS:
        getter(g)
    mutator("update_admittance", [])
    mutator("update_R", [])
    mutator("update_resistances", ["resistances"])

    def make_init():
        fn = py_method(cls, "__init__")
        b = body_of(fn)
        par = [k for k, s in enumerate(b) if isinstance(s, ast.Expr) and isinstance(s.value, ast.Call)
               and src(s.value.func) == "GeoNetwork.__init__"]
        need(len(par) == 1, "__init__: one call GeoNetwork.__init__(...)")
        kws = {k.arg: src(k.value) for k in b[par[0]].value.keywords}
        need(kws.get("adjacency") == "adjacency", "__init__: GeoNetwork.__init__ is not handed `adjacency`")
        ls = py_stmts(b[par[0] + 1:], {"resistances": "mat"}, "__init__")
        return ("/-- the statements of `ResNetwork.__init__` after `GeoNetwork.__init__(self, grid, "
                "adjacency=adjacency, …)` -/\n"
                "def init_tail (pinv : Nat → Mat → LMat) (self : Py) (resistances : Mat) : Py :=\n  "
                + "\n  ".join(ls) + "\n")
    emit("init_tail", make_init)
    out.append("/-- every method body above was translated (no stub) -/\n"
               f"def pyBodiesTranslated : Bool := {'false' if errors else 'true'}\n")
    if errors:
        raise Shape("; ".join(errors))


def main():
    out = ["import Pyunicorn.Model.CircuitPy",
           "/- GENERATED by translate/gen_C18.py from the current working tree — do not edit. -/",
           "set_option linter.unusedVariables false",
           "namespace Pyunicorn.Generated.StructC18",
           "open Pyunicorn.Circuit\n",
           "/-- C `fabs` on exact values -/",
           "def fabs (x : Rat) : Rat := if x < 0 then -x else x\n"]
    errors = []
    for part in (c_part, py_part, py_bodies):
        try:
            part(out)
        except Shape as e:
            errors.append(str(e))
    out.append("end Pyunicorn.Generated.StructC18")
    with open(OUT, "w") as f:
        f.write("\n".join(out) + "\n")
    for e in errors:
        print("gen_C18:", e)
    return errors


if __name__ == "__main__":
    try:
        errs = main()
    except Exception as ex:  # noqa
        print(f"gen_C18: {type(ex).__name__}: {ex}")
        sys.exit(1)
    sys.exit(1 if errs else 0)
