#!/usr/bin/env python3
"""gen_C01 — extract, for every class that uses `Cached`, the memoisation table of the
*current* source and emit it as Lean data (lean/Pyunicorn/Generated/StructC01.lean):

  * the tuple returned by the `__cache_state__` the MRO actually selects (calls to
    `Base.__cache_state__(self)` are followed),
  * for every `@Cached.method(attrs=...)` method: key components and the transitive
    read set (attribute loads through helpers, properties, explicit base calls and other
    cached methods; `if <param>` branches evaluated when a helper is called with a
    constant argument),
  * for every public method / property setter that writes state: write set, counters
    bumped (`self._mut_x += 1`) and counters reset (`self._mut_x = <const>` — what
    re-running `Network.__init__` on a live object does).

Usage: gen_C01.py <out.lean> [--json <out.json>]
The classes are *parsed* (never imported); the MRO is computed by C3 linearisation over
the parsed class hierarchy.
"""
import ast
import json
import os
import sys

sys.path.insert(0, os.path.dirname(os.path.abspath(__file__)))

REPO = os.environ.get("VERIF_REPO", "/repo")
SRC = os.path.join(REPO, "src", "pyunicorn")
HERE = os.path.dirname(os.path.abspath(__file__))
CFG = json.load(open(os.path.join(HERE, "fields_C01.json")))


# --------------------------------------------------------------------------
# parse all classes
# --------------------------------------------------------------------------

class ClassInfo:
    def __init__(self, name, node, module):
        self.name, self.node, self.module = name, node, module
        self.bases = [b.id if isinstance(b, ast.Name) else
                      (b.attr if isinstance(b, ast.Attribute) else None) for b in node.bases]
        self.funcs = {}      # name -> FunctionDef (plain methods, incl. static/class)
        self.getters = {}    # property getters
        self.setters = {}    # property setters
        self.cached = {}     # name -> attrs tuple (possibly empty)
        for n in node.body:
            if isinstance(n, ast.FunctionDef):
                decos = [ast.unparse(d) for d in n.decorator_list]
                if any(d == "property" for d in decos):
                    self.getters[n.name] = n
                elif any(d.endswith(".setter") for d in decos):
                    self.setters[n.name] = n
                else:
                    self.funcs[n.name] = n
                for d in n.decorator_list:
                    if isinstance(d, ast.Call) and ast.unparse(d.func) == "Cached.method":
                        attrs = ()
                        for k in d.keywords:
                            if k.arg == "attrs":
                                attrs = tuple(ast.literal_eval(k.value))
                        self.cached[n.name] = attrs


def parse_all():
    classes = {}
    for root, _, fns in os.walk(SRC):
        for fn in fns:
            if fn.endswith(".py"):
                path = os.path.join(root, fn)
                try:
                    tree = ast.parse(open(path).read())
                except SyntaxError:
                    continue
                for n in tree.body:
                    if isinstance(n, ast.ClassDef):
                        classes[n.name] = ClassInfo(n.name, n, os.path.relpath(path, SRC))
    return classes


def c3(name, classes, memo):
    if name in memo:
        return memo[name]
    ci = classes.get(name)
    if ci is None:
        return [name]
    seqs = [list(c3(b, classes, memo)) for b in ci.bases if b] + [[b for b in ci.bases if b]]
    res = [name]
    while True:
        seqs = [s for s in seqs if s]
        if not seqs:
            break
        for s in seqs:
            cand = s[0]
            if not any(cand in t[1:] for t in seqs):
                break
        else:
            raise ValueError("inconsistent MRO for " + name)
        res.append(cand)
        for s in seqs:
            if s[0] == cand:
                del s[0]
    memo[name] = res
    return res


# --------------------------------------------------------------------------
# effect analysis
# --------------------------------------------------------------------------

class _Mirror(set):
    """the transitive read set; every *direct* `add` is mirrored into `dreads`"""
    def __init__(self, mirror):
        super().__init__()
        self.mirror = mirror

    def add(self, x):
        set.add(self, x)
        self.mirror.add(x)


class Effects:
    def __init__(self):
        self.dreads = set()       # fields read by the body itself / uncached helpers (round 3)
        self.reads = _Mirror(self.dreads)     # ... plus, transitively, those of cached callees
        self.writes, self.bumps, self.resets = set(), set(), set()
        self.calls = set()
        self.ccalls = set()       # (cached callee, argument pattern) edges (round 3)
        self.ocalls = set()       # (owned component, its cached method, pattern) edges (round 5)

    def merge(self, o, through_cache=False):
        """through_cache: `o` are the effects of a cached method called through its cache: its
        reads count for the flat read set only; the nested table records the call edge"""
        set.update(self.reads, o.reads)
        self.writes |= o.writes
        self.bumps |= o.bumps
        self.resets |= o.resets
        self.calls |= o.calls
        if not through_cache:
            self.dreads |= o.dreads
            self.ccalls |= o.ccalls
            self.ocalls |= o.ocalls


UNKNOWN = object()


def _isctr(c):
    return c.split(".")[-1].startswith("_mut_") or c in CFG.get("counters_by_value", [])


class Analyzer:
    def __init__(self, classes):
        self.classes = classes
        self.mro_memo = {}
        self.memo = {}
        self.stack = set()
        self.patterns = {}     # (class, cached method) -> {constant call shape: (pattern, env)}
        self._pm, self._os = {}, {}

    def mro(self, cname):
        return c3(cname, self.classes, self.mro_memo)

    def resolve(self, cname, attr, kind, start=None):
        """find `attr` of kind funcs/getters/setters along the MRO of cname
        (starting at class `start` if given)"""
        mro = self.mro(cname)
        if start is not None and start in mro:
            mro = mro[mro.index(start):]
        elif start is not None:
            mro = self.mro(start)
        for c in mro:
            ci = self.classes.get(c)
            if ci is not None and attr in getattr(ci, kind):
                return ci, getattr(ci, kind)[attr]
        return None, None

    def is_cached(self, cname, attr):
        for c in self.mro(cname):
            ci = self.classes.get(c)
            if ci is not None and attr in ci.funcs:
                return ci.cached.get(attr)
        return None

    # ---- constant evaluation of tests under a parameter environment ----
    def const(self, node, env):
        if isinstance(node, ast.Constant):
            return node.value
        if isinstance(node, ast.Name) and node.id in env:
            return env[node.id]
        if isinstance(node, ast.Call) and ast.unparse(node.func) == "hasattr" and len(node.args) == 2 \
                and isinstance(node.args[1], ast.Constant) and str(node.args[1].value).startswith("_mut_"):
            return True     # on a live object the counters exist
        if isinstance(node, ast.UnaryOp) and isinstance(node.op, ast.Not):
            v = self.const(node.operand, env)
            return UNKNOWN if v is UNKNOWN else (not v)
        if isinstance(node, ast.Compare) and len(node.ops) == 1:
            a = self.const(node.left, env)
            b = self.const(node.comparators[0], env)
            if a is UNKNOWN or b is UNKNOWN:
                return UNKNOWN
            op = node.ops[0]
            if isinstance(op, ast.Is):
                return a is b
            if isinstance(op, ast.IsNot):
                return a is not b
            if isinstance(op, ast.Eq):
                return a == b
            if isinstance(op, ast.NotEq):
                return a != b
        if isinstance(node, ast.BoolOp):
            vals = [self.const(v, env) for v in node.values]
            if isinstance(node.op, ast.And):
                if any(v is not UNKNOWN and not v for v in vals):
                    return False
                return UNKNOWN if any(v is UNKNOWN for v in vals) else vals[-1]
            if any(v is not UNKNOWN and v for v in vals):
                return True
            return UNKNOWN if any(v is UNKNOWN for v in vals) else vals[-1]
        return UNKNOWN

    def call_env(self, fdef, call, env, skip_self):
        """constant environment of the callee from the call's constant arguments"""
        params = [a.arg for a in fdef.args.args]
        if params and params[0] in ("self", "cls"):
            params = params[1:]
        args = list(call.args)
        if skip_self and args:
            args = args[1:]
        new = {}
        defaults = fdef.args.defaults
        dparams = [a.arg for a in fdef.args.args][len(fdef.args.args) - len(defaults):]
        for p, d in zip(dparams, defaults):
            v = self.const(d, {})
            if v is not UNKNOWN:
                new[p] = v
        for p, a in zip(params, args):
            v = self.const(a, env)
            if v is UNKNOWN:
                new.pop(p, None)
            else:
                new[p] = v
        for k in call.keywords:
            if k.arg is None:
                continue
            v = self.const(k.value, env)
            if v is UNKNOWN:
                new.pop(k.arg, None)
            else:
                new[k.arg] = v
        return new

    def call_pattern(self, cname, callee, fdef, call, env, skip_self):
        """argument pattern of a call of a cached method: 0 = no arguments at all (the lru key
        is the bare object), 1 = general body (`*args` / `**kwargs` at the call site),
        k >= 2 = a call *shape*: which parameters are passed, and the value of those that are
        constants under the caller's environment (`self.outdegree(key)` with key=None known;
        `self.nsi_degree(typical_weight=typical_weight)`: key keeps its default).  A shape gets
        its own specialised body, in which the unknown arguments are universally quantified."""
        args = list(call.args)[1:] if skip_self else list(call.args)
        if not args and not call.keywords:
            return 0
        shape = []
        for a in args:
            if isinstance(a, ast.Starred):
                return 1
            v = self.const(a, env)
            shape.append(("pos", "?" if v is UNKNOWN else repr(v)))
        for k in call.keywords:
            if k.arg is None:
                return 1
            v = self.const(k.value, env)
            shape.append((k.arg, "?" if v is UNKNOWN else repr(v)))
        reg = self.patterns.setdefault((cname, callee), {})
        key = tuple(shape)
        if key not in reg:
            reg[key] = (len(reg) + 2, self.call_env(fdef, call, env, skip_self))
        return reg[key][0]

    def default_env(self, fdef):
        """constant environment of a call without arguments; None if some parameter has no
        default (then there is no such call)"""
        params = fdef.args.args[1:]
        defaults = fdef.args.defaults
        if len(defaults) < len(params) or fdef.args.vararg or \
                any(d is None for d in fdef.args.kw_defaults):
            return None
        envd = {}
        for p, d in zip(params[len(params) - len(defaults):], defaults):
            v = self.const(d, {})
            if v is not UNKNOWN:
                envd[p.arg] = v
        for p, d in zip(fdef.args.kwonlyargs, fdef.args.kw_defaults):
            v = self.const(d, {})
            if v is not UNKNOWN:
                envd[p.arg] = v
        return envd

    def effects(self, cname, owner, fdef, env, top=False):
        """effects of running function `fdef` (defined in class `owner`) on an object of
        class `cname`, with constant parameter environment env.  At top level (the
        cached method / mutator itself) defaults are NOT assumed: all patterns count."""
        key = (cname, owner, fdef.name, id(fdef), tuple(sorted((k, repr(v)) for k, v in env.items())))
        if key in self.memo:
            return self.memo[key]
        if key in self.stack:
            return Effects()
        self.stack.add(key)
        eff = Effects()
        selfname = fdef.args.args[0].arg if fdef.args.args else None
        is_static = any(ast.unparse(d) in ("staticmethod",) for d in fdef.decorator_list)
        if is_static:
            selfname = None
        self.walk_body(cname, fdef.body, env, eff, selfname)
        self.stack.discard(key)
        self.memo[key] = eff
        return eff

    def walk_body(self, cname, stmts, env, eff, selfname):
        for st in stmts:
            self.walk_stmt(cname, st, env, eff, selfname)

    def walk_stmt(self, cname, st, env, eff, selfname):
        if isinstance(st, ast.If):
            v = self.const(st.test, env)
            self.walk_expr(cname, st.test, env, eff, selfname)
            if v is UNKNOWN:
                self.walk_body(cname, st.body, env, eff, selfname)
                self.walk_body(cname, st.orelse, env, eff, selfname)
            elif v:
                self.walk_body(cname, st.body, env, eff, selfname)
            else:
                self.walk_body(cname, st.orelse, env, eff, selfname)
            return
        if isinstance(st, (ast.FunctionDef, ast.ClassDef)):
            return
        if isinstance(st, ast.For) and selfname is not None and \
                ast.unparse(st.iter) == f"{selfname}.graph.es" and isinstance(st.target, ast.Name):
            eff.reads.add("graph")
            env = dict(env)
            env["@alias"] = frozenset(set(env.get("@alias", frozenset())) | {st.target.id})
            self.walk_body(cname, st.body, env, eff, selfname)
            self.walk_body(cname, st.orelse, env, eff, selfname)
            return
        if isinstance(st, (ast.Assign, ast.AugAssign, ast.AnnAssign)):
            targets = st.targets if isinstance(st, ast.Assign) else [st.target]
            value = st.value
            if value is not None:
                self.walk_expr(cname, value, env, eff, selfname)
            for t in targets:
                self.walk_target(cname, t, st, env, eff, selfname)
            # a local rebinding invalidates constant knowledge of that name
            for t in targets:
                if isinstance(t, ast.Name):
                    env = dict(env)
                    env.pop(t.id, None)
            return
        if isinstance(st, ast.Delete):
            for t in st.targets:
                self.walk_target(cname, t, st, env, eff, selfname)
            return
        # generic: walk child statements / expressions
        for field, val in ast.iter_fields(st):
            if isinstance(val, list):
                for v in val:
                    if isinstance(v, ast.stmt):
                        self.walk_stmt(cname, v, env, eff, selfname)
                    elif isinstance(v, ast.AST):
                        self.walk_expr(cname, v, env, eff, selfname)
            elif isinstance(val, ast.stmt):
                self.walk_stmt(cname, val, env, eff, selfname)
            elif isinstance(val, ast.AST):
                self.walk_expr(cname, val, env, eff, selfname)

    def self_attr(self, node, selfname):
        """`self.X` -> X ; `self.graph.es` -> graph.es ; else None"""
        if isinstance(node, ast.Attribute) and isinstance(node.value, ast.Name) \
                and node.value.id == selfname and selfname is not None:
            return node.attr
        return None

    def walk_target(self, cname, t, st, env, eff, selfname):
        if isinstance(t, (ast.Tuple, ast.List)):
            for e in t.elts:
                self.walk_target(cname, e, st, env, eff, selfname)
            return
        x = self.self_attr(t, selfname)
        if x is not None:
            owner, setter = self.resolve(cname, x, "setters")
            if setter is not None:
                eff.merge(self.effects(cname, owner.name, setter, {}))
                return
            if x in CFG.get("counters_by_value", []):
                eff.bumps.add(x)      # an attribute in the key that changes value whenever assigned
                return
            if x.startswith("_mut_"):
                if isinstance(st, ast.AugAssign):
                    eff.bumps.add(x)
                elif isinstance(st, (ast.Assign, ast.AnnAssign)) and isinstance(st.value, ast.Call) and \
                        ast.unparse(st.value.func) == "getattr" and len(st.value.args) >= 2 and \
                        ast.unparse(st.value.args[0]) == selfname and \
                        isinstance(st.value.args[1], ast.Constant) and st.value.args[1].value == x:
                    pass            # `self._mut_x = getattr(self, "_mut_x", 0)`: preserved
                elif isinstance(st, (ast.Assign, ast.AnnAssign)) and isinstance(st.value, ast.BinOp) \
                        and isinstance(st.value.op, ast.Add) \
                        and ast.unparse(st.value.left).replace("'", '"') in (
                            f'getattr({selfname}, "{x}", 0)', f"{selfname}.{x}") \
                        and isinstance(st.value.right, ast.Constant) and st.value.right.value == 1:
                    eff.bumps.add(x)   # `self._mut_x = getattr(self, "_mut_x", 0) + 1`
                else:
                    eff.resets.add(x)
                return
            eff.writes.add(x)
            return
        # e[...] = v with `for e in self.graph.es`
        if isinstance(t, ast.Subscript) and isinstance(t.value, ast.Name) \
                and t.value.id in env.get("@alias", ()):
            eff.writes.add("graph.es")
            return
        # self.X[...] = v   /  self.graph.es[k] = v  / self.X.attr = v
        base = t
        path = []
        while isinstance(base, (ast.Subscript, ast.Attribute)):
            if isinstance(base, ast.Subscript):
                self.walk_expr(cname, base.slice, env, eff, selfname)
                path.append("[]")
                base = base.value
            else:
                x = self.self_attr(base, selfname)
                if x is not None:
                    full = x + "".join("." + p for p in reversed(path) if p != "[]")
                    if x == "graph" and "es" in path:
                        eff.writes.add("graph.es")
                    elif x == "graph" and "vs" in path:
                        eff.writes.add("graph.vs")
                    else:
                        eff.writes.add(x)
                        _ = full
                    return
                path.append(base.attr)
                base = base.value
        if isinstance(t, ast.AST):
            self.walk_expr(cname, t, env, eff, selfname)

    def walk_expr(self, cname, node, env, eff, selfname):
        if node is None:
            return
        if isinstance(node, ast.IfExp):
            v = self.const(node.test, env)
            self.walk_expr(cname, node.test, env, eff, selfname)
            if v is UNKNOWN or v:
                self.walk_expr(cname, node.body, env, eff, selfname)
            if v is UNKNOWN or not v:
                self.walk_expr(cname, node.orelse, env, eff, selfname)
            return
        if isinstance(node, ast.Call):
            self.walk_call(cname, node, env, eff, selfname)
            return
        if isinstance(node, ast.Subscript) and isinstance(node.value, ast.Name) \
                and node.value.id in env.get("@alias", ()) and isinstance(node.ctx, ast.Load):
            eff.reads.add("graph.es")
            self.walk_expr(cname, node.slice, env, eff, selfname)
            return
        if isinstance(node, ast.Attribute):
            x = self.self_attr(node, selfname)
            if x is not None:
                self.read_attr(cname, x, eff)
                return
            # self.graph.es / self.graph.vs
            inner = self.self_attr(node.value, selfname)
            if inner == "graph" and node.attr in ("es",):
                eff.reads.add("graph.es")
                eff.reads.add("graph")
                return
            if inner is not None and inner in CFG["owned"]:
                # self.data.something -> content of the owned object
                eff.reads.add(inner)
                eff.reads.add(inner + ".content")
                return
            self.walk_expr(cname, node.value, env, eff, selfname)
            return
        if isinstance(node, (ast.Lambda,)):
            self.walk_expr(cname, node.body, env, eff, selfname)
            return
        for child in ast.iter_child_nodes(node):
            if isinstance(child, ast.expr) or isinstance(child, (ast.comprehension, ast.keyword,
                                                                 ast.Slice, ast.Starred)):
                self.walk_expr(cname, child, env, eff, selfname)

    def read_attr(self, cname, x, eff):
        owner, getter = self.resolve(cname, x, "getters")
        if getter is not None:
            eff.merge(self.effects(cname, owner.name, getter, {}))
            return
        if x in ("__class__", "__dict__", "silence_level"):
            return
        eff.reads.add(x)
        if x in CFG["owned"]:
            pass

    def walk_call(self, cname, node, env, eff, selfname):
        f = node.func
        # arguments first
        for a in node.args:
            self.walk_expr(cname, a, env, eff, selfname)
        for k in node.keywords:
            self.walk_expr(cname, k.value, env, eff, selfname)
        # self.m(...)
        x = self.self_attr(f, selfname)
        if x is not None:
            owner, fdef = self.resolve(cname, x, "funcs")
            if fdef is not None:
                if x in owner.cached:
                    eff.calls.add(x)
                    eff.ccalls.add((x, self.call_pattern(cname, x, fdef, node, env, False)))
                eff.merge(self.effects(cname, owner.name, fdef,
                                       self.call_env(fdef, node, env, skip_self=False)),
                          through_cache=x in owner.cached)
            else:
                self.read_attr(cname, x, eff)
            return
        # Base.m(self, ...) / Base.prop.fset(...)
        if isinstance(f, ast.Attribute) and isinstance(f.value, ast.Name) \
                and f.value.id in self.classes and node.args \
                and isinstance(node.args[0], ast.Name) and node.args[0].id == selfname:
            base = f.value.id
            owner, fdef = self.resolve(cname, f.attr, "funcs", start=base)
            if fdef is not None:
                # the cache of `Base.m` is the cache of this class's `m` only if the MRO selects
                # the same definition; otherwise the call is treated as inlined (sound: the flat
                # read set is the same)
                sel, _ = self.resolve(cname, f.attr, "funcs")
                thru = f.attr in owner.cached and sel is not None and sel.name == owner.name
                if f.attr in owner.cached:
                    eff.calls.add(f.attr)
                if thru:
                    eff.ccalls.add((f.attr, self.call_pattern(cname, f.attr, fdef, node, env, True)))
                eff.merge(self.effects(cname, owner.name, fdef,
                                       self.call_env(fdef, node, env, skip_self=True)),
                          through_cache=thru)
                return
        # getattr(Base, f"{x}_suffix")(self, ...): dynamic dispatch over the methods of Base whose
        # name matches the constant parts of the f-string; all of them may be called
        if isinstance(f, ast.Call) and isinstance(f.func, ast.Name) and f.func.id == "getattr" \
                and len(f.args) >= 2 and isinstance(f.args[0], ast.Name) \
                and f.args[0].id in self.classes and isinstance(f.args[1], ast.JoinedStr) \
                and node.args and isinstance(node.args[0], ast.Name) \
                and node.args[0].id == selfname:
            import re as _re
            pat = "".join(_re.escape(str(v.value)) if isinstance(v, ast.Constant) else ".*"
                          for v in f.args[1].values)
            base = f.args[0].id
            seen = set()
            for c in self.mro(base):
                ci = self.classes.get(c)
                if ci is None:
                    continue
                for nm, fdef in ci.funcs.items():
                    if nm in seen or not _re.fullmatch(pat, nm):
                        continue
                    seen.add(nm)
                    sel, _ = self.resolve(cname, nm, "funcs")
                    thru = nm in ci.cached and sel is not None and sel.name == ci.name
                    if nm in ci.cached:
                        eff.calls.add(nm)
                    if thru:
                        eff.ccalls.add((nm, self.call_pattern(cname, nm, fdef, node, env, True)))
                    eff.merge(self.effects(cname, ci.name, fdef,
                                           self.call_env(fdef, node, env, skip_self=True)),
                              through_cache=thru)
            return
        # super().m(...)
        if isinstance(f, ast.Attribute) and isinstance(f.value, ast.Call) \
                and ast.unparse(f.value.func) == "super":
            mro = self.mro(cname)
            # owner unknown here: approximate by the next class after the first definer
            for c in mro[1:]:
                ci = self.classes.get(c)
                if ci is not None and f.attr in ci.funcs:
                    eff.merge(self.effects(cname, c, ci.funcs[f.attr],
                                           self.call_env(ci.funcs[f.attr], node, env, False)))
                    break
            return
        # self.graph.<method>(..., weights=...)
        if isinstance(f, ast.Attribute):
            inner = self.self_attr(f.value, selfname)
            if inner == "graph":
                eff.reads.add("graph")
                w = [k for k in node.keywords if k.arg in ("weights", "weight")]
                if w:
                    v = self.const(w[0].value, env)
                    if v is UNKNOWN or v is not None:
                        eff.reads.add("graph.es")
                if f.attr in CFG["graph_mutating_calls"]:
                    eff.writes.add("graph")
                return
            if inner is not None and inner in CFG["owned"]:
                eff.reads.add(inner)
                eff.reads.add(inner + ".content")
                # round 5: a cached method of the owned object, served from ITS caches
                oc, od = self.resolve(CFG["owned"][inner].get("class", "?"), f.attr, "funcs")
                ocls = CFG["owned"][inner].get("class", "?")
                if od is not None and f.attr in oc.cached:
                    eff.ocalls.add((inner, f.attr, 0 if not (node.args or node.keywords) else 1))
                elif od is not None:
                    # an uncached method of the owned object: the cached methods IT calls
                    for c, a in self.effects(ocls, oc.name, od, {}).ccalls:
                        eff.ocalls.add((inner, c, a))
                osp = self.owned_spec(inner)
                if f.attr in osp["mutators"]:
                    eff.writes.add(inner + ".content")
                    for c in osp["bumps"].get(f.attr, []):
                        eff.bumps.add(inner + "." + c)
                return
            # in-place array methods on fields: self.X.sort() etc.
            if inner is not None and f.attr in ("sort", "fill", "resize", "put", "itemset"):
                eff.writes.add(inner)
                eff.reads.add(inner)
                return
        self.walk_expr(cname, f, env, eff, selfname)

    # ---- public mutators of a class; owned objects (round 5: derived, not hand-written) ------
    def public_mutators(self, cname):
        """name -> write / bump / reset sets of every public method and property setter of the
        class (by MRO) that writes a field or touches a counter"""
        if cname in self._pm:
            return self._pm[cname]
        self._pm[cname] = {}          # guard against ownership cycles
        classes = self.classes
        mro = self.mro(cname)
        an = self
        mutators = {}
        names = set()
        for c in mro:
            ci = classes.get(c)
            if ci is None:
                continue
            for n in list(ci.funcs) + ["set:" + s for s in ci.setters]:
                names.add(n)
        for n in sorted(names):
            if n.startswith("set:"):
                owner, fdef = an.resolve(cname, n[4:], "setters")
                if n[4:].startswith("_"):
                    continue
            else:
                if n.startswith("_") or n in CFG.get("not_mutators", []):
                    continue
                owner, fdef = an.resolve(cname, n, "funcs")
            if fdef is None:
                continue
            decos = [ast.unparse(d) for d in fdef.decorator_list]
            if "staticmethod" in decos or "classmethod" in decos:
                continue
            eff = an.effects(cname, owner.name, fdef, {}, top=True)
            if eff.writes or eff.bumps or eff.resets:
                mutators[n] = {"writes": sorted(eff.writes), "bumps": sorted(eff.bumps),
                               "resets": sorted(eff.resets), "owner": owner.name,
                               "calls": sorted(eff.calls)}
        self._pm[cname] = mutators
        return mutators

    def owned_spec(self, comp):
        """the owned component as the owner's key sees it — derived from the owned class's own
        source: the counters of its `__cache_state__` (`Cached.__hash__` of the owner hashes the
        owned object, i.e. that tuple), its public mutators and which of these counters each
        bumps.  translate/fields_C01.json only names the component and its class."""
        if comp in self._os:
            return self._os[comp]
        spec = CFG["owned"][comp]
        ocls = spec.get("class")
        if ocls not in self.classes:
            r = {"class": ocls, "state": list(spec.get("state", [])),
                 "mutators": list(spec.get("mutators", [])), "bumps": dict(spec.get("bumps", {}))}
        else:
            self._os[comp] = {"class": ocls, "state": [], "mutators": [], "bumps": {}}
            state = [c for c in self.cache_state(ocls) if _isctr(c)]
            muts = self.public_mutators(ocls)
            r = {"class": ocls, "state": state, "mutators": sorted(muts),
                 "bumps": {m: [c for c in muts[m]["bumps"] if c in state] for m in muts}}
        self._os[comp] = r
        return r

    # ---- cache key ---------------------------------------------------------
    def cache_state(self, cname, start=None):
        owner, fdef = self.resolve(cname, "__cache_state__", "funcs", start=start)
        if fdef is None:
            return []
        ret = [n for n in ast.walk(fdef) if isinstance(n, ast.Return)]
        if not ret:
            return ["<no-return>"]
        return self.key_expr(cname, ret[-1].value, fdef.args.args[0].arg)

    def key_expr(self, cname, e, selfname):
        if isinstance(e, ast.Tuple):
            out = []
            for el in e.elts:
                x = self.self_attr(el, selfname)
                # `getattr(self, "_mut_x", 0)`: the component `_mut_x` (idiom of the setters)
                if x is None and isinstance(el, ast.Call) and isinstance(el.func, ast.Name) \
                        and el.func.id == "getattr" and len(el.args) >= 2 \
                        and isinstance(el.args[0], ast.Name) and el.args[0].id == selfname \
                        and isinstance(el.args[1], ast.Constant) and isinstance(el.args[1].value, str):
                    x = el.args[1].value
                out.append(x if x is not None else "<expr:" + ast.unparse(el) + ">")
            return out
        if isinstance(e, ast.IfExp):
            v = self.const(e.test, {})
            if v is not UNKNOWN:
                return self.key_expr(cname, e.body if v else e.orelse, selfname)
        if isinstance(e, ast.BinOp) and isinstance(e.op, ast.Add):
            return self.key_expr(cname, e.left, selfname) + self.key_expr(cname, e.right, selfname)
        if isinstance(e, ast.Call) and isinstance(e.func, ast.Attribute) \
                and e.func.attr == "__cache_state__" and isinstance(e.func.value, ast.Name):
            return self.cache_state(cname, start=e.func.value.id)
        return ["<expr:" + ast.unparse(e) + ">"]


# --------------------------------------------------------------------------
# tables
# --------------------------------------------------------------------------

def build_tables():
    classes = parse_all()
    an = Analyzer(classes)
    out = {}
    for cname in CFG["classes"]:
        if cname not in classes:
            out[cname] = {"error": "class not found"}
            continue
        mro = an.mro(cname)
        key = an.cache_state(cname)
        # expand owned objects in the key: identity field + their own counters
        methods = {}
        seen = set()
        for c in mro:
            ci = classes.get(c)
            if ci is None:
                continue
            for mname, attrs in ci.cached.items():
                if mname in seen:
                    continue
                # is this the definition the MRO selects?
                owner, fdef = an.resolve(cname, mname, "funcs")
                if owner is None or owner.name != c:
                    continue
                seen.add(mname)
                eff = an.effects(cname, c, fdef, {}, top=True)
                comps = list(key) + list(attrs)
                methods[mname] = {"key": comps, "reads": sorted(eff.reads),
                                  "writes": sorted(eff.writes), "bumps": sorted(eff.bumps),
                                  "owner": c,
                                  # round 3: the method as written (nested view)
                                  "dreads": sorted(eff.dreads),
                                  "ccalls": sorted(eff.ccalls), "ocalls": sorted(eff.ocalls)}
                env0 = an.default_env(fdef)
                general = {"reads": sorted(eff.reads), "dreads": sorted(eff.dreads),
                           "ccalls": sorted(eff.ccalls), "shape": "general",
                           "ocalls": sorted(eff.ocalls)}
                body0 = general
                if env0 is not None:
                    eff0 = an.effects(cname, c, fdef, env0)
                    body0 = {"reads": sorted(eff0.reads), "dreads": sorted(eff0.dreads),
                             "ccalls": sorted(eff0.ccalls), "shape": "()",
                             "ocalls": sorted(eff0.ocalls)}
                # bodies[k] = body of argument pattern k (0: no arguments, 1: general, >= 2 below)
                methods[mname]["bodies"] = [body0, general]
                methods[mname]["_def"] = (c, fdef)
        # specialised bodies of constant call shapes met at call sites (may register new ones)
        progress = True
        while progress:
            progress = False
            for mname, m in methods.items():
                reg = an.patterns.get((cname, mname), {})
                for shape, (pat, envp) in sorted(reg.items(), key=lambda kv: kv[1][0]):
                    if pat < len(m["bodies"]):
                        continue
                    assert pat == len(m["bodies"])
                    c, fdef = m["_def"]
                    effp = an.effects(cname, c, fdef, envp)
                    m["bodies"].append({"reads": sorted(effp.reads), "dreads": sorted(effp.dreads),
                                        "ccalls": sorted(effp.ccalls), "shape": repr(shape),
                                        "ocalls": sorted(effp.ocalls)})
                    progress = True
        for m in methods.values():
            m.pop("_def", None)
        mutators = dict(an.public_mutators(cname))
        # mutators of owned objects reachable through a key component
        owned_state = {}
        for comp, spec in CFG["owned"].items():
            if comp in key or any(comp in m["reads"] for m in methods.values()):
                osp = an.owned_spec(comp)
                owned_state[comp] = osp["state"]
                for mut in osp["mutators"]:
                    mutators[f"{comp}.{mut}"] = {
                        "writes": [comp + ".content"],
                        "bumps": [comp + "." + c for c in osp["bumps"].get(mut, [])],
                        "resets": [], "owner": spec.get("class", "?")}
        out[cname] = {"mro": mro, "key": key, "methods": methods, "mutators": mutators,
                      "owned_state": owned_state,
                      "order": topo_order(methods), "maxsize": lru_maxsize(classes)}
    return out


def topo_order(methods):
    """callees before callers (ties by name); members of a cycle are placed in name order —
    the Lean predicate `NTable.acyclic` then fails and names the class"""
    order, state = [], {}

    def visit(m):
        if state.get(m) is not None:
            return
        state[m] = 1
        cs = {c for b in methods[m]["bodies"] for c, _ in b["ccalls"]}
        for c in sorted(cs):
            if c in methods and c != m:
                visit(c)
        state[m] = 2
        order.append(m)
    for m in sorted(methods):
        visit(m)
    return order


def lru_maxsize(classes):
    """`Cached.lru_params["maxsize"]` of core/cache.py"""
    ci = classes.get("Cached")
    if ci is None:
        return 32
    for n in ci.node.body:
        if isinstance(n, ast.Assign) and any(isinstance(t, ast.Name) and t.id == "lru_params"
                                             for t in n.targets):
            try:
                return ast.literal_eval(n.value).get("maxsize", 128)
            except Exception:  # noqa
                return 32
    return 32


def to_lean(tables, modes=None):
    names = {}

    def fid(n):
        if n not in names:
            names[n] = len(names)
        return names[n]

    def lst(xs):
        return "[" + ", ".join(str(x) for x in xs) + "]"

    lines = ["/- GENERATED by translate/gen_C01.py from the current /repo working tree — do not edit. -/",
             "import Pyunicorn.Model.MemoNested", "import Pyunicorn.Model.MemoMode",
             "import Pyunicorn.Model.MemoOwned",
             "namespace Pyunicorn.Generated.StructC01",
             "open Pyunicorn.Memo", ""]
    tabs = []
    for cname, t in tables.items():
        if "error" in t:
            lines.append(f"-- {cname}: {t['error']}")
            continue
        lines.append(f"/-- `{cname}`: MRO {' > '.join(t['mro'][:6])}; `__cache_state__` = {t['key']} -/")
        mlines, nlines, idx = [], [], 0
        pos = {n: i for i, n in enumerate(t["order"])}
        for mname in t["order"]:
            m = t["methods"][mname]
            comps = []
            for comp in m["key"]:
                comps.append(comp)
                if comp in CFG["owned"]:
                    comps += [comp + "." + c for c in t.get("owned_state", {}).get(
                        comp, CFG["owned"][comp].get("state", []))]
            isctr = _isctr
            ctrs = [c for c in comps if isctr(c)]
            flds = [c for c in comps if not isctr(c)]
            reads = set(m["reads"])
            # a counter-named attribute read as data is not a field
            reads = {r for r in reads if not r.startswith("_mut_")}
            mlines.append(f"    /- {idx} {mname} key={comps} -/ ⟨{lst(sorted(fid(r) for r in reads))}, "
                          f"{lst([fid('ctr:' + c) for c in ctrs])}, {lst([fid(f) for f in flds])}⟩")

            def body(b):
                dr = sorted(fid(r) for r in b["dreads"] if not r.startswith("_mut_"))
                cs = ", ".join(f"({pos[c]}, {a})" for c, a in b["ccalls"] if c in pos)
                return f"⟨{lst(dr)}, [{cs}]⟩"
            bodies = [body(b) for b in m["bodies"]]
            nlines.append(f"    /- {idx} {mname} -/ ⟨[{', '.join(bodies)}], {body(m)}, "
                          f"{lst([fid('ctr:' + c) for c in ctrs])}, {lst([fid(f) for f in flds])}⟩")
            idx += 1
        olines, idx = [], 0
        for oname, o in sorted(t["mutators"].items()):
            olines.append(f"    /- {idx} {oname} -/ ⟨{lst(sorted(fid(w) for w in o['writes']))}, "
                          f"{lst(sorted(fid('ctr:' + c) for c in o['bumps']))}, "
                          f"{lst(sorted(fid('ctr:' + c) for c in o['resets']))}⟩")
            idx += 1
        lines.append(f"def tbl_{cname} : Table := ⟨[\n" + ",\n".join(mlines) + "],\n  [\n"
                     + ",\n".join(olines) + "]⟩\n")
        ms = t.get("maxsize")
        lines.append(f"/-- `{cname}` as written: per method the specialised body of the call without "
                     f"arguments, the general body, the key -/\n"
                     f"def ntbl_{cname} : NTable := ⟨[\n" + ",\n".join(nlines) + "],\n  [\n"
                     + ",\n".join(olines) + "],\n  " + ("none" if ms is None else f"some {ms}") + "⟩\n")
        tabs.append(cname)
    glines = []
    for g in CFG["groups"]:
        glines.append(f"  ⟨{lst([fid(x) for x in g['members']])}, {lst([fid(x) for x in g['required']])}⟩")
    lines.append("def groups : List Group := [\n" + ",\n".join(glines) + "]\n")
    lines.append("def allTables : List (String × Table) := [\n" +
                 ",\n".join(f'  ("{c}", tbl_{c})' for c in tabs) + "]\n")
    lines.append("def allNTables : List (String × NTable) := [\n" +
                 ",\n".join(f'  ("{c}", ntbl_{c})' for c in tabs) + "]\n")
    # ---- round 5: owned objects — link records for `Memo.compose` (Model/MemoOwned.lean)
    isctr_ = lambda c: c.split(".")[-1].startswith("_mut_") or c in CFG.get("counters_by_value", [])  # noqa
    olinks, ometa = [], {}
    for cname in tabs:
        t = tables[cname]
        for comp, spec in CFG["owned"].items():
            ocls = spec.get("class")
            if ocls not in tabs:
                continue
            u = tables[ocls]
            used = comp in t["key"] or any(comp in m["reads"] for m in t["methods"].values())
            has_calls = any(oc[0] == comp for m in t["methods"].values()
                            for b in m["bodies"] + [m] for oc in b.get("ocalls", []))
            if not used or not (u["mutators"] or has_calls):
                continue
            if not u["mutators"] and not any(
                    oc[0] == comp and m.get("owner") == cname for m in t["methods"].values()
                    for b in m["bodies"] + [m] for oc in b.get("ocalls", [])):
                # an owned class without mutators (GeoGrid): the pair is emitted for the class that
                # DEFINES the calling method; subclasses inherit method, call edge and key prefix
                continue
            pos = {n: i for i, n in enumerate(t["order"])}
            upos = {n: i for i, n in enumerate(u["order"])}
            onames, unames = sorted(t["mutators"]), sorted(u["mutators"])
            # the owned object's `__cache_state__`, from the owned class's OWN table
            ctrs = [(fid("ctr:" + c), fid("ctr:" + comp + "." + c)) for c in u["key"] if isctr_(c)]
            ocalls = []
            for mname, m in t["methods"].items():
                for k, b in enumerate(m["bodies"] + [m]):
                    for oc in b.get("ocalls", []):
                        if oc[0] == comp and oc[1] in upos:
                            ocalls.append((pos[mname], k, upos[oc[1]], oc[2]))
            abstracted = [(onames.index(f"{comp}.{mu}"), unames.index(mu)) for mu in unames
                          if f"{comp}.{mu}" in onames]
            dangling = [o for o in onames if o.startswith(comp + ".") and o[len(comp) + 1:] not in unames]
            olinks.append((cname, comp, ocls, fid(comp + ".content"), ctrs, sorted(ocalls), abstracted))
            ometa[f"{cname}:{comp}"] = {"class": ocls, "owner_mutators": [
                o for i, o in enumerate(onames) if i not in [a for a, _ in abstracted]],
                "owned_mutators": unames, "owned_methods": u["order"], "dangling": dangling,
                "json_state": spec.get("state", []), "derived_state": [c for c in u["key"] if isctr_(c)],
                "ocalls": sorted(ocalls)}
    shift = len(names) + 1000
    ol = []
    for cname, comp, ocls, content, ctrs, ocalls, abstracted in olinks:
        pr = lambda xs: "[" + ", ".join("(" + ", ".join(str(y) for y in x) + ")" for x in xs) + "]"  # noqa
        lines.append(f"/-- `{cname}.{comp}` : `{ocls}` -/\ndef olink_{cname}_{comp} : OLink := "
                     f"⟨{content}, {pr(ctrs)}, {pr(ocalls)}, {pr(abstracted)}, {shift}⟩\n")
        ol.append(f'  ("{cname}", "{comp}", ntbl_{cname}, ntbl_{ocls}, olink_{cname}_{comp})')
    lines.append("def allOLinks : List (String × String × NTable × NTable × OLink) := [\n"
                 + ",\n".join(ol) + "]\n")
    to_lean.ometa = ometa
    # ---- round 4: assignment events of constructors and public mutators (translate/c01_mode.py)
    consts, sites, mtabs = {}, {}, []
    for cname in tabs:
        mt = (modes or {}).get(cname)
        if mt is None:
            continue

        def ev(e):
            f, kind, val, deps, site = e
            if kind == "const":
                return f"⟨{fid(f)}, .const {consts.setdefault(val, len(consts))}⟩"
            sid = sites.setdefault((cname, tuple(site)), len(sites))
            return f"⟨{fid(f)}, .expr {sid} {lst([fid(d) for d in deps])}⟩"

        def evs(es, ind="      "):
            return "[" + (",\n" + ind).join(ev(e) for e in es) + "]"
        onames = [o for o in sorted(tables[cname]["mutators"]) if o in mt["entries"]]
        mt["order"] = onames
        body = ",\n".join(f"    /- {i} {o} -/ {evs(mt['entries'][o])}" for i, o in enumerate(onames))
        lines.append(f"/-- `{cname}`: assignments of `__init__` and of every public mutator, in "
                     f"execution order -/\ndef mtbl_{cname} : Pyunicorn.Mode.MTable := ⟨\n"
                     f"    {evs(mt['entries'].get('__init__', []))},\n  [\n{body}]⟩\n")
        mtabs.append(cname)
    lines.append("def allMTables : List (String × Pyunicorn.Mode.MTable) := [\n" +
                 ",\n".join(f'  ("{c}", mtbl_{c})' for c in mtabs) + "]\n")
    to_lean.consts = consts
    lines.append("def constNames : List String := [" +
                 ", ".join('"' + n.replace('"', "'") + '"'
                           for n, _ in sorted(consts.items(), key=lambda kv: kv[1])) + "]\n")
    lines.append("def fieldNames : List String := [" +
                 ", ".join('"' + n + '"' for n, _ in sorted(names.items(), key=lambda kv: kv[1])) + "]\n")
    lines.append("end Pyunicorn.Generated.StructC01")
    return "\n".join(lines) + "\n", names


def main():
    out = sys.argv[1]
    tables = build_tables()
    import c01_mode
    classes = parse_all()
    modes = c01_mode.mode_tables(Analyzer(classes), classes, CFG, tables, UNKNOWN)
    text, names = to_lean(tables, modes)
    if not os.path.exists(out) or open(out).read() != text:
        open(out, "w").write(text)
    jpath = os.path.splitext(out)[0] + ".json"
    json.dump({"tables": tables, "names": names, "modes": modes, "consts": to_lean.consts,
               "owned": to_lean.ometa},
              open(jpath, "w"), indent=1)
    errs = [c for c, t in tables.items() if "error" in t]
    for c in errs:
        print("gen_C01: class not found:", c)
    return 1 if errs else 0


if __name__ == "__main__":
    sys.exit(main())
