#!/usr/bin/env python3
"""attrs_C06 — named link-attribute slots written and read inside value-returning public methods.

Used by translate/gen_C06.py (round 4).  Several measures store a link attribute on the object as
a side effect (`SpatialNetwork.distance`, `ClimateNetwork.inv_correlation_distance`,
`TsonisClimateNetwork.correlation`, everything built on `ClimateNetwork._weighted_metric`) and
then hand the *name* of the attribute to a generic measure (`closeness(name)` ...).  The slot is
shared state of the object: if two methods fill the same slot from different expressions, whichever
is queried first decides what the other returns.

For every class (methods resolved along its C3 linearisation, read from the `class` statements)
and every public method callable without arguments the body is turned into a list of steps

  store  S g      self.set_link_attribute(S, E)                         g = id of the text of E
  ensure S g      if not self.find_link_attribute(S): self.set_link_attribute(S, E)
  use    S        self.<m>(.., S, ..) where S is a string constant bound to a parameter named
                  link_attribute / key / attribute_name (also getattr(self, M)(S)); such a
                  call is a terminal reader and is not inlined
  once   m body   self.m() with m a @Cached.method whose own steps are unconditional stores
  opaque why      anything touching link attributes that is none of the above (del_link_attribute,
                  a store under another condition, a cached method that reads a slot, a slot name
                  that is not a constant, recursion) — makes the table check fail

Calls of other methods of the same class are inlined (string constants and lambdas passed as
arguments are substituted for the parameters, `calc()` of a lambda is beta-reduced), local names
assigned once are replaced by their defining expression in the generating text.  Nothing is
hand-listed.
"""
import ast

SLOT_PARAMS = {"link_attribute", "key", "attribute_name"}
WRITE = "set_link_attribute"
FIND = "find_link_attribute"
DELETE = "del_link_attribute"
MAX_DEPTH = 6


def c3(cls, bases, memo):
    if cls in memo:
        return memo[cls]
    seqs = [c3(b, bases, memo) for b in bases.get(cls, []) if b in bases] + \
           [[b for b in bases.get(cls, []) if b in bases]]
    seqs = [list(s) for s in seqs if s]
    out = [cls]
    while seqs:
        for s in seqs:
            h = s[0]
            if not any(h in t[1:] for t in seqs):
                break
        else:
            h = seqs[0][0]          # inconsistent hierarchy: fall back to the first head
        out.append(h)
        seqs = [[x for x in s if x != h] for s in seqs]
        seqs = [s for s in seqs if s]
    memo[cls] = out
    return out


class Subst(ast.NodeTransformer):
    def __init__(self, env):
        self.env = env

    def visit_Name(self, node):
        if node.id in self.env and self.env[node.id] is not None:
            return self.env[node.id]
        return node

    def visit_Call(self, node):
        node = self.generic_visit(node)
        # (lambda: E)()  ->  E
        if isinstance(node.func, ast.Lambda) and not node.args and not node.keywords \
                and not node.func.args.args:
            return node.func.body
        return node


def subst(expr, env):
    import copy
    return Subst(env).visit(copy.deepcopy(expr))


class ClassAttrs:
    def __init__(self, cname, methods, cached):
        self.cname, self.methods, self.cached = cname, methods, cached
        self.gens = None            # shared catalogue (list of texts), set by the caller
        self.relevant = self.relevant_methods()

    def relevant_methods(self):
        """methods that can reach a link-attribute store / delete or read a slot named by a
        constant: only these are inlined (everything else contributes no step)"""
        direct, calls = set(), {}
        for mname, (owner, f) in self.methods.items():
            params = [a.arg for a in f.args.args]
            selfname = params[0] if params else "self"
            calls[mname] = set()
            for n in ast.walk(f):
                if not isinstance(n, ast.Call):
                    continue
                fn = n.func
                if isinstance(fn, ast.Attribute) and isinstance(fn.value, ast.Name) \
                        and fn.value.id == selfname:
                    calls[mname].add(fn.attr)
                    if fn.attr in (WRITE, DELETE):
                        direct.add(mname)
                    if fn.attr in self.methods and fn.attr != FIND:
                        cps = [a.arg for a in self.methods[fn.attr][1].args.args][1:]
                        for i, a in enumerate(n.args):
                            if i < len(cps) and cps[i] in SLOT_PARAMS and \
                                    isinstance(a, ast.Constant) and isinstance(a.value, str):
                                direct.add(mname)
                        for k in n.keywords:
                            if k.arg in SLOT_PARAMS and isinstance(k.value, ast.Constant) \
                                    and isinstance(k.value.value, str):
                                direct.add(mname)
                elif isinstance(fn, ast.Call) and isinstance(fn.func, ast.Name) \
                        and fn.func.id == "getattr" and fn.args \
                        and isinstance(fn.args[0], ast.Name) and fn.args[0].id == selfname:
                    direct.add(mname)
        rel, grew = set(direct), True
        while grew:
            grew = False
            for m, cs in calls.items():
                if m not in rel and cs & rel:
                    rel.add(m)
                    grew = True
        return rel

    def gen_id(self, text):
        if text not in self.gens:
            self.gens.append(text)
        return self.gens.index(text)

    # -- one method body ------------------------------------------------------------------------
    def steps_of(self, mname, env, stack):
        """steps of `self.mname(..)` with parameters bound by `env` (name -> ast node or None)"""
        if mname in stack or len(stack) >= MAX_DEPTH:
            return [("opaque", f"recursion:{mname}")]
        owner, f = self.methods[mname]
        params = [a.arg for a in f.args.args]
        selfname = params[0] if params else "self"
        local = dict(env)
        # names assigned exactly once in the body are replaced by their definition in texts
        counts = {}
        for n in ast.walk(f):
            if isinstance(n, ast.Assign):
                for t in n.targets:
                    for x in ast.walk(t):
                        if isinstance(x, ast.Name):
                            counts[x.id] = counts.get(x.id, 0) + 1
            elif isinstance(n, (ast.AugAssign, ast.AnnAssign, ast.For)):
                t = n.target
                for x in ast.walk(t):
                    if isinstance(x, ast.Name):
                        counts[x.id] = counts.get(x.id, 0) + 2
        ctx = {"self": selfname, "env": local, "once": {k for k, c in counts.items() if c == 1},
               "stack": stack + [mname]}
        return self.block(f.body, ctx)

    def block(self, stmts, ctx):
        out = []
        for st in stmts:
            out += self.stmt(st, ctx)
        return out

    def stmt(self, st, ctx):
        if isinstance(st, (ast.FunctionDef, ast.ClassDef)):
            return []
        if isinstance(st, ast.If):
            slot = self.absent_test(st.test, ctx)
            if slot is not None:
                body = self.block(st.body, ctx)
                other = self.block(st.orelse, ctx)
                if other or any(not (s[0] == "store" and s[1] == slot) for s in body):
                    return [("opaque", f"conditional:{slot}")] if (body or other) else []
                return [("ensure", s[1], s[2]) for s in body]
            pre = self.expr(st.test, ctx)
            body = self.block(st.body, ctx)
            other = self.block(st.orelse, ctx)
            if body or other:
                # a slot access under a condition the model does not know
                if body == other:
                    return pre + body
                return pre + [("opaque", "conditional")]
            return pre
        if isinstance(st, ast.Assign):
            out = self.expr(st.value, ctx)
            for t in st.targets:
                if isinstance(t, ast.Name) and t.id in ctx["once"]:
                    ctx["env"][t.id] = subst(st.value, ctx["env"])
                elif isinstance(t, ast.Name):
                    ctx["env"][t.id] = None
                else:
                    out += self.expr(t, ctx)
            return out
        if isinstance(st, (ast.For, ast.While)):
            out = self.expr(st.iter if isinstance(st, ast.For) else st.test, ctx)
            if self.block(st.body, ctx) or self.block(st.orelse, ctx):
                out += [("opaque", "loop")]       # executed an unknown number of times
            return out
        if isinstance(st, ast.Try):
            out = self.block(st.body, ctx)
            rest = self.block(st.orelse, ctx) + self.block(st.finalbody, ctx)
            for h in st.handlers:
                rest += self.block(h.body, ctx)
            return out + ([("opaque", "try")] if rest else [])
        if isinstance(st, ast.With):
            out = []
            for it in st.items:
                out += self.expr(it.context_expr, ctx)
            return out + self.block(st.body, ctx)
        out = []
        for field, val in ast.iter_fields(st):
            if isinstance(val, ast.expr):
                out += self.expr(val, ctx)
            elif isinstance(val, list):
                for v in val:
                    if isinstance(v, ast.expr):
                        out += self.expr(v, ctx)
        return out

    def absent_test(self, test, ctx):
        """`not self.find_link_attribute(S)` -> S"""
        if isinstance(test, ast.UnaryOp) and isinstance(test.op, ast.Not) \
                and isinstance(test.operand, ast.Call):
            c = test.operand
            if self.self_method(c.func, ctx) == FIND and c.args:
                a = subst(c.args[0], ctx["env"])
                if isinstance(a, ast.Constant) and isinstance(a.value, str):
                    return a.value
        return None

    def self_method(self, fn, ctx):
        if isinstance(fn, ast.Attribute) and isinstance(fn.value, ast.Name) \
                and fn.value.id == ctx["self"]:
            return fn.attr
        # getattr(self, "m")
        if isinstance(fn, ast.Call) and isinstance(fn.func, ast.Name) and fn.func.id == "getattr" \
                and len(fn.args) == 2 and isinstance(fn.args[0], ast.Name) \
                and fn.args[0].id == ctx["self"]:
            m = subst(fn.args[1], ctx["env"])
            if isinstance(m, ast.Constant) and isinstance(m.value, str):
                return m.value
            return "?"
        return None

    def expr(self, e, ctx):
        """steps of evaluating expression `e` (arguments before the call)"""
        if e is None:
            return []
        if isinstance(e, ast.Lambda):
            return []                         # evaluated where it is called
        if not isinstance(e, ast.Call):
            out = []
            for ch in ast.iter_child_nodes(e):
                if isinstance(ch, ast.expr):
                    out += self.expr(ch, ctx)
                elif isinstance(ch, ast.comprehension):
                    out += self.expr(ch.iter, ctx)
                    for c in ch.ifs:
                        out += self.expr(c, ctx)
            return out
        out = []
        if isinstance(e.func, ast.Attribute):
            out += self.expr(e.func.value, ctx)
        elif isinstance(e.func, ast.Call):
            for a in e.func.args:
                out += self.expr(a, ctx)
        for a in e.args:
            out += self.expr(a, ctx)
        for k in e.keywords:
            out += self.expr(k.value, ctx)
        # a parameter bound to a lambda, called: calc()
        if isinstance(e.func, ast.Name):
            bound = ctx["env"].get(e.func.id)
            if isinstance(bound, ast.Lambda):
                return out + self.expr(bound.body, ctx)
            return out
        m = self.self_method(e.func, ctx)
        if m is None:
            # something else called with the name of a slot written in this class is not a use
            return out
        args = [subst(a, ctx["env"]) for a in e.args]
        kws = {k.arg: subst(k.value, ctx["env"]) for k in e.keywords if k.arg}

        def const(a):
            return a.value if isinstance(a, ast.Constant) and isinstance(a.value, str) else None
        if m == FIND:
            return out
        if m == WRITE:
            name = const(args[0]) if args else const(kws.get("attribute_name"))
            val = args[1] if len(args) > 1 else kws.get("values")
            if name is None or val is None:
                return out + [("opaque", "store-of-a-computed-name")]
            return out + [("store", name, self.gen_id(ast.unparse(val)))]
        if m == DELETE:
            return out + [("opaque", DELETE)]
        if m == "?":
            return out + [("opaque", "getattr")]
        if m not in self.methods:
            return out
        owner, f = self.methods[m]
        params = [a.arg for a in f.args.args][1:]
        bound = {}
        for i, a in enumerate(args):
            if i < len(params):
                bound[params[i]] = a
        for k, v in kws.items():
            bound[k] = v
        uses = [("use", const(v)) for p, v in bound.items() if p in SLOT_PARAMS and const(v)]
        if uses:
            # a generic measure handed the name of a slot: its value depends on the slot's content
            return out + uses
        if m not in self.relevant:
            return out
        # constants / lambdas travel into the callee, everything else is unknown there
        env = {p: (v if isinstance(v, (ast.Constant, ast.Lambda)) else None)
               for p, v in bound.items()}
        for p in params:
            env.setdefault(p, None)
        inner = self.steps_of(m, env, ctx["stack"])
        if m in self.cached:
            if not inner:
                return out + uses
            if bound or any(s[0] != "store" for s in inner):
                return out + uses + [("opaque", f"cached:{m}")]
            return out + uses + [("once", m, [(s[1], s[2]) for s in inner])]
        return out + uses + inner


def class_tables(mods, cached_by_class):
    """{class: {"methods": {name: steps}}, ...}, catalogue of generating expressions,
    {class: {public value-returning method: number of required arguments}}"""
    classes, bases = {}, {}
    for mod, tree in sorted(mods.items()):
        for node in tree.body:
            if isinstance(node, ast.ClassDef):
                classes[node.name] = (mod, node)
                bases[node.name] = [ast.unparse(b).split(".")[-1] for b in node.bases]
    memo, gens, out, value_methods = {}, [], {}, {}
    for cname in sorted(classes):
        mro = c3(cname, bases, memo)
        methods, cached = {}, set()
        for c in reversed(mro):
            if c not in classes:
                continue
            for n in classes[c][1].body:
                if isinstance(n, ast.FunctionDef):
                    decos = [ast.unparse(d) for d in n.decorator_list]
                    if any(d in ("staticmethod", "classmethod", "property") or d.endswith(".setter")
                           for d in decos):
                        methods.pop(n.name, None)
                        continue
                    methods[n.name] = (c, n)
                    (cached.add if any(d.startswith("Cached.method") for d in decos)
                     else cached.discard)(n.name)
        ca = ClassAttrs(cname, methods, cached)
        ca.gens = gens
        table = {}
        for mname, (owner, f) in sorted(methods.items()):
            if mname.startswith("_"):
                continue
            a = f.args
            required = len(a.args) - 1 - len(a.defaults)
            if not any(isinstance(n, ast.Return) and n.value is not None for n in ast.walk(f)):
                continue                      # returns nothing: not a query
            value_methods.setdefault(cname, {})[mname] = required
            if required > 0:
                continue
            env = {p.arg: None for p in a.args[1:]}
            # default values that are constants are what a call without arguments binds
            for p, d in zip(a.args[len(a.args) - len(a.defaults):], a.defaults):
                env[p.arg] = d if isinstance(d, ast.Constant) else None
            steps = ca.steps_of(mname, env, [])
            if steps:
                if mname in cached:
                    # a cached public method executes its steps on the first call only
                    if all(s[0] == "store" for s in steps):
                        steps = [("once", mname, [(s[1], s[2]) for s in steps])]
                    else:
                        steps = [("opaque", f"cached:{mname}")]
                table[mname] = {"owner": owner, "steps": steps}
        if table:
            out[cname] = {"module": classes[cname][0], "mro": mro, "methods": table}
    return out, gens, value_methods


def lean_step(s):
    if s[0] in ("store", "ensure"):
        return f'.{s[0]} "{s[1]}" {s[2]}'
    if s[0] == "use":
        return f'.use "{s[1]}"'
    if s[0] == "once":
        body = ", ".join(f'("{a}", {g})' for a, g in s[2])
        return f'.once "{s[1]}" [{body}]'
    return f'.other "{s[1]}"'


def lean_text(tables):
    ents = []
    for cname, t in sorted(tables.items()):
        ms = ",\n".join(f'    ("{m}", [{", ".join(lean_step(s) for s in v["steps"])}])'
                        for m, v in sorted(t["methods"].items()))
        ents.append(f'  ("{cname}", [\n{ms}])')
    return "def attrTables : List (String × List (String × List AStep)) := [\n" + \
        ",\n".join(ents) + "]\n"
