#!/usr/bin/env python3
"""gen_arith — translate integer / rational *index and size expressions* of the
current /repo source into Lean definitions.

Usage:  gen_arith.py <spec.json> <out.lean>      (REPO from $VERIF_REPO or /repo)

A spec is a JSON list of items

  {"name": "newman_step",                      Lean name of the definition
   "file": "src/pyunicorn/core/network.py",
   "func": "Network.newman_betweenness",       Class.method or function (`name#k`: k-th def of that name);
                                               `.pyx` files: a top-level def, read line by line (see parse_pyx)
   "target": "step",                           assigned name | "return" | "subscript:<arr>"
                                               | "index:<arr>" (load) | "sindex:<arr>" = "store_index:<arr>"
                                               (index of a subscript that is assigned to) | "call:<f>#<i>"
   "occurrence": 0,                            which matching statement (default 0)
   "matches": "min_dist",                      optional regex on the candidate expression's text (ast.unparse);
                                               `occurrence` then counts among the matching candidates
   "params": [["N","Int"],["max_parts","Int"]],  free names of the expression, with Lean types
   "ret": "Int",                               Lean type of the result
   "rename": {"self.N": "N", "mpi.size": "size"}  optional: dotted names -> parameter
   "calls": {"np.tanh": "th", "self.grid.angular_distance": "d"}
                                               optional: calls of these (dotted) functions are kept
                                               uninterpreted: without arguments -> the parameter
                                               itself, with one argument -> `(th <arg>)` where the
                                               parameter is declared with a function type
   "rename_expr": {"np.sum(Axy)": "sumAxy"}     optional: sub-expressions (ast.unparse text) -> parameter
   "subexpr": "(dst - lag >= 0) * (dst - lag <= taumax)"   optional: translate only this sub-expression
                                               of the selected statement (must occur in it)
                                               ("x.max()": "x_max" names a zero-argument method call)
  }

and the generated file contains, for each item, the source text as a comment
and `def <name> (params) : ret := <translated expression>`.

The translation is purely syntactic (Python `ast`), with these idiom rules:

  int(np.ceil(a / b)), int(ceil(a / b))  -> ceilDiv a b   when a, b are integer
                                            expressions after dropping `1.0 *`
  int(e)           -> (e) if e is an integer expression, Rat.floor e otherwise
                      (Python int() truncates towards 0; the items modelled are
                      non-negative, which the theorems carry as hypotheses)
  np.ceil(e)       -> Rat.ceil e
  a // b           -> a / b  (Lean Int `/` floors for positive b, as Python)
  a / b            -> (a : Rat) / (b : Rat)
  min, max, abs, len(x) -> min, max, natAbs-free `|x|`, parameter `len_x`
  float literals   -> exact decimal rationals  (0.1 -> (1/10 : Rat))
  x if c else y    -> if c then x else y
  comparisons / and / or / not -> decidable propositions (`ret` = "Bool" wraps
                      them in `decide`); `x in [c1, c2]` -> (x = c1 ∨ x = c2);
                      NumPy's `(cmp) * (cmp)` -> conjunction

Anything else raises, and the check reports that the obligation can no longer
be generated (a broken tie, settled by the failing-input search).
"""
import ast
import json
import os
import re
import sys
from fractions import Fraction

REPO = os.environ.get("VERIF_REPO", "/repo")


class Untranslatable(Exception):
    pass


def parse_pyx(src):
    """Cython source (`.pyx`): every top-level `def f(` becomes a FunctionDef whose body
    holds those lines of f that are plain Python taken one by one (assignments, augmented
    assignments, and the headers of `for`/`if`/`while`, given an empty `pass` body);
    `cdef` declarations, signatures and whatever else does not parse are skipped.
    Line numbers and column offsets refer to the real file."""
    mod = ast.Module(body=[], type_ignores=[])
    cur = None
    for no, line in enumerate(src.split("\n"), 1):
        m = re.match(r"(?:def|cpdef|cdef)\s+(?:[\w\[\], ]+\s+)?(\w+)\s*\(", line)
        if m:
            cur = ast.FunctionDef(
                name=m.group(1), body=[], decorator_list=[], lineno=no, col_offset=0,
                args=ast.arguments(posonlyargs=[], args=[], kwonlyargs=[], kw_defaults=[],
                                   defaults=[]))
            mod.body.append(cur)
            continue
        s = line.strip()
        if cur is None or not s or s.startswith("#") or not line[0].isspace():
            continue
        try:
            node = ast.parse(s + " pass" if s.endswith(":") else s).body[0]
        except SyntaxError:
            continue
        indent = len(line) - len(line.lstrip())
        for n in ast.walk(node):
            if hasattr(n, "lineno"):
                n.lineno += no - 1
                n.end_lineno += no - 1
                n.col_offset += indent
                n.end_col_offset += indent
        cur.body.append(node)
    return mod


def find_func(tree, qual):
    parts = qual.split(".")
    body = tree.body
    node = None
    for p in parts:
        node = None
        # `name#k` selects the k-th definition of that name (property getter / setter pairs)
        p, _, skip = p.partition("#")
        skip = int(skip or 0)
        for n in body:
            if isinstance(n, (ast.FunctionDef, ast.ClassDef, ast.AsyncFunctionDef)) and n.name == p:
                if skip:
                    skip -= 1
                    continue
                node = n
                break
        if node is None:
            raise Untranslatable(f"cannot find {qual}")
        body = node.body
    return node


def dotted(n):
    if isinstance(n, ast.Name):
        return n.id
    if isinstance(n, ast.Attribute):
        d = dotted(n.value)
        return None if d is None else d + "." + n.attr
    return None


def find_stmt(func, target, occurrence, matches=None):
    hits = []
    for n in ast.walk(func):
        if target == "return" and isinstance(n, ast.Return) and n.value is not None:
            hits.append((n.lineno, n.value))
        elif isinstance(n, ast.Assign):
            for t in n.targets:
                if dotted(t) == target:
                    hits.append((n.lineno, n.value))
                elif target.startswith("subscript:") and isinstance(t, ast.Subscript) \
                        and dotted(t.value) == target[len("subscript:"):]:
                    hits.append((n.lineno, n.value))
                elif isinstance(t, ast.Tuple) and isinstance(n.value, ast.Tuple):
                    for tt, vv in zip(t.elts, n.value.elts):
                        if dotted(tt) == target:
                            hits.append((n.lineno, vv))
        elif isinstance(n, ast.AugAssign) and dotted(n.target) == target:
            hits.append((n.lineno, n))
        elif target.startswith("if:") and isinstance(n, (ast.If, ast.While)):
            hits.append((n.lineno, n.test))
        elif target.startswith("index:") and isinstance(n, ast.Subscript) \
                and dotted(n.value) == target[len("index:"):] \
                and isinstance(n.ctx, ast.Load):
            hits.append((n.lineno, n.slice))
        elif (target.startswith("sindex:") or target.startswith("store_index:")) \
                and isinstance(n, ast.Subscript) \
                and dotted(n.value) == target.split(":", 1)[1] \
                and isinstance(n.ctx, ast.Store):
            # index expression of a subscript that is assigned to (a[<idx>] = ...)
            hits.append((n.lineno, n.slice))
        elif target.startswith("call:") and isinstance(n, ast.Call) \
                and dotted(n.func) == target[len("call:"):].split("#")[0]:
            argi = int(target.split("#")[1]) if "#" in target else 0
            if argi < len(n.args):
                hits.append((n.lineno, n.args[argi]))
    hits.sort(key=lambda h: h[0])
    if matches is not None:
        # keep the candidates whose expression text (ast.unparse) matches the regex
        hits = [h for h in hits if isinstance(h[1], ast.AST) and re.search(matches, ast.unparse(h[1]))]
    if occurrence >= len(hits):
        raise Untranslatable(f"statement `{target}` #{occurrence} not found "
                             f"({len(hits)} candidates)")
    return hits[occurrence]


class Tr:
    def __init__(self, item):
        self.types = {p: t for p, t in item["params"]}
        self.rename = item.get("rename", {})
        self.calls = item.get("calls", {})
        self.rename_expr = item.get("rename_expr", {})

    # returns (lean_text, type) with type in {"Int", "Rat", "Prop"}
    def tr(self, n):
        # optional `rename_expr`: {"<ast.unparse text of a sub-expression>": "<param>"} treats that
        # sub-expression (e.g. an array reduction `np.sum(A)`) as an opaque parameter
        if getattr(self, "rename_expr", None):
            try:
                u = ast.unparse(n)
            except Exception:  # noqa
                u = None
            if u in self.rename_expr:
                d2 = self.rename_expr[u]
                if d2 in self.types:
                    t = self.types[d2]
                    return d2, ("Rat" if t == "Rat" else "Int")
                raise Untranslatable(f"rename_expr target {d2} not declared in params")
        d = dotted(n)
        if d is None and not isinstance(n, ast.Constant):
            # `rename` may also name a whole sub-expression by its source text as printed by
            # ast.unparse, e.g. {"window['time_min']": "tmin", "self.grid.grid_size()['time']": "T"}
            try:
                u = ast.unparse(n)
            except Exception:  # noqa
                u = None
            if u in self.rename:
                d = u
        if d is not None:
            d2 = self.rename.get(d, d)
            if d2 in self.types:
                t = self.types[d2]
                return d2, ("Rat" if t == "Rat" else "Int")
            raise Untranslatable(f"free name {d} not declared in params")
        if isinstance(n, ast.Constant):
            if isinstance(n.value, bool):
                return ("True" if n.value else "False"), "Prop"
            if isinstance(n.value, int):
                return (f"({n.value} : Int)", "Int")
            if isinstance(n.value, float):
                fr = Fraction(repr(n.value))
                if fr.denominator == 1:
                    return f"({fr.numerator} : Rat)", "RatInt"   # integral float like 1.0
                return f"(({fr.numerator} : Rat) / {fr.denominator})", "Rat"
            raise Untranslatable(f"constant {n.value!r}")
        if isinstance(n, ast.UnaryOp):
            a, t = self.tr(n.operand)
            if isinstance(n.op, ast.USub):
                return f"(-{a})", t
            if isinstance(n.op, ast.Not):
                return f"(¬ {a})", "Prop"
        if isinstance(n, ast.BinOp):
            a, ta = self.tr(n.left)
            b, tb = self.tr(n.right)
            # `1.0 * x` and `x * 1.0` are float-casting idioms
            if isinstance(n.op, ast.Mult):
                if ta == "RatInt" and a == "(1 : Rat)":
                    return b, ("RatCast" if tb == "Int" else tb)
                if tb == "RatInt" and b == "(1 : Rat)":
                    return a, ("RatCast" if ta == "Int" else ta)
            # element-wise `&` / `|` of comparisons (NumPy boolean arrays read pointwise)
            if isinstance(n.op, (ast.BitAnd, ast.BitOr)) and ta == "Prop" and tb == "Prop":
                return f"({a} {'∧' if isinstance(n.op, ast.BitAnd) else '∨'} {b})", "Prop"
            # NumPy idiom `(a > 0) * (a <= b)`: product of comparisons = conjunction
            if isinstance(n.op, ast.Mult) and ta == "Prop" and tb == "Prop":
                return f"({a} ∧ {b})", "Prop"
            isint = lambda t: t in ("Int",)  # noqa
            if isinstance(n.op, (ast.Add, ast.Sub, ast.Mult)):
                op = {ast.Add: "+", ast.Sub: "-", ast.Mult: "*"}[type(n.op)]
                if isint(ta) and isint(tb):
                    return f"({a} {op} {b})", "Int"
                return f"({self.rat(a, ta)} {op} {self.rat(b, tb)})", "Rat"
            if isinstance(n.op, ast.FloorDiv):
                if isint(ta) and isint(tb):
                    return f"({a} / {b})", "Int"
                return f"(Rat.floor ({self.rat(a, ta)} / {self.rat(b, tb)}) : Int)", "Int"
            if isinstance(n.op, ast.Mod) and isint(ta) and isint(tb):
                return f"({a} % {b})", "Int"
            if isinstance(n.op, ast.Div):
                return f"({self.rat(a, ta)} / {self.rat(b, tb)})", "RatDiv:" + json.dumps([a, ta, b, tb])
            if isinstance(n.op, ast.Pow) and isinstance(n.right, ast.Constant) \
                    and isinstance(n.right.value, int):
                return f"({a} ^ {n.right.value})", ta
        if isinstance(n, ast.Call):
            # `<expr>.astype(int)` is the array spelling of `int(<expr>)`
            if isinstance(n.func, ast.Attribute) and n.func.attr == "astype" \
                    and len(n.args) == 1 and dotted(n.args[0]) == "int" \
                    and dotted(n.func.value) is None:
                return self.tr(ast.Call(func=ast.Name(id="int", ctx=ast.Load()),
                                        args=[n.func.value], keywords=[]))
            f = dotted(n.func)
            args = n.args
            if f in self.calls and not n.keywords and len(args) <= 1:
                # uninterpreted function / method call declared in the spec
                if not args:
                    return self.calls[f], "Rat"
                x, tx = self.tr(args[0])
                return f"({self.calls[f]} {self.rat(x, tx)})", "Rat"
            # a zero-argument method call declared as a parameter, e.g.
            # "rename": {"edges.max()": "edges_max"}
            if f is not None and not args and not n.keywords and (f + "()") in self.rename:
                d2 = self.rename[f + "()"]
                if d2 in self.types:
                    return d2, ("Rat" if self.types[d2] == "Rat" else "Int")
            if f in ("int",) and len(args) == 1:
                inner = args[0]
                # int(np.ceil(a / b))
                if isinstance(inner, ast.Call) and dotted(inner.func) in ("np.ceil", "ceil", "math.ceil", "numpy.ceil"):
                    x, tx = self.tr(inner.args[0])
                    if tx.startswith("RatDiv:"):
                        a, ta, b, tb = json.loads(tx[len("RatDiv:"):])
                        if ta in ("Int", "RatCast") and tb in ("Int", "RatCast"):
                            return f"(ceilDiv {a} {b})", "Int"
                    return f"(Rat.ceil {self.rat(x, tx)} : Int)", "Int"
                if isinstance(inner, ast.Call) and dotted(inner.func) in ("np.floor", "floor", "math.floor"):
                    x, tx = self.tr(inner.args[0])
                    return f"(Rat.floor {self.rat(x, tx)} : Int)", "Int"
                x, tx = self.tr(inner)
                if tx == "Int":
                    return x, "Int"
                return f"(Rat.floor {self.rat(x, tx)} : Int)", "Int"
            if f in ("np.ceil", "ceil", "math.ceil"):
                x, tx = self.tr(args[0])
                return f"((Rat.ceil {self.rat(x, tx)} : Int) : Rat)", "Rat"
            if f in ("min", "max", "np.minimum", "np.maximum") and len(args) == 2:
                a, ta = self.tr(args[0])
                b, tb = self.tr(args[1])
                fn = "min" if "min" in f else "max"
                if ta == "Int" and tb == "Int":
                    return f"({fn} {a} {b})", "Int"
                return f"({fn} {self.rat(a, ta)} {self.rat(b, tb)})", "Rat"
            if f in ("abs", "np.abs") and len(args) == 1:
                a, ta = self.tr(args[0])
                return (f"(|{a}|)", ta) if ta != "Int" else (f"((Int.natAbs {a} : Nat) : Int)", "Int")
            if f == "len" and len(args) == 1:
                nm = "len_" + (dotted(args[0]) or "x").replace(".", "_")
                nm = self.rename.get(nm, nm)
                if nm in self.types:
                    return nm, "Int"
                raise Untranslatable(f"len() of undeclared {nm}")
            if f in ("float", "np.float64", "np.float32") and len(args) == 1:
                a, ta = self.tr(args[0])
                return a, ("RatCast" if ta == "Int" else ta)
        if isinstance(n, ast.IfExp):
            c, _ = self.tr(n.test)
            a, ta = self.tr(n.body)
            b, tb = self.tr(n.orelse)
            if ta == "Int" and tb == "Int":
                return f"(if {c} then {a} else {b})", "Int"
            return f"(if {c} then {self.rat(a, ta)} else {self.rat(b, tb)})", "Rat"
        if isinstance(n, ast.Compare) and len(n.ops) >= 1:
            parts = []
            left = n.left
            for op, right in zip(n.ops, n.comparators):
                if isinstance(op, (ast.In, ast.NotIn)) and isinstance(right, (ast.List, ast.Tuple)) \
                        and right.elts:
                    # `x in [c1, c2]` -> (x = c1 ∨ x = c2)
                    a, ta = self.tr(left)
                    alts = []
                    for el in right.elts:
                        b, tb = self.tr(el)
                        if ta == "Int" and tb == "Int":
                            alts.append(f"({a} = {b})")
                        else:
                            alts.append(f"({self.rat(a, ta)} = {self.rat(b, tb)})")
                    txt = "(" + " ∨ ".join(alts) + ")"
                    parts.append(txt if isinstance(op, ast.In) else f"(¬ {txt})")
                    left = right
                    continue
                a, ta = self.tr(left)
                b, tb = self.tr(right)
                sym = {ast.Lt: "<", ast.LtE: "≤", ast.Gt: ">", ast.GtE: "≥",
                       ast.Eq: "=", ast.NotEq: "≠"}.get(type(op))
                if sym is None:
                    raise Untranslatable("comparison operator")
                if ta == "Int" and tb == "Int":
                    parts.append(f"({a} {sym} {b})")
                else:
                    parts.append(f"({self.rat(a, ta)} {sym} {self.rat(b, tb)})")
                left = right
            return "(" + " ∧ ".join(parts) + ")", "Prop"
        if isinstance(n, ast.BoolOp):
            sym = " ∧ " if isinstance(n.op, ast.And) else " ∨ "
            return "(" + sym.join(self.tr(v)[0] for v in n.values) + ")", "Prop"
        if isinstance(n, ast.Slice):
            raise Untranslatable("slice: use target on lower/upper separately")
        raise Untranslatable("expression " + ast.dump(n)[:120])

    def rat(self, a, t):
        if t in ("Int", "RatCast"):
            return f"(({a} : Int) : Rat)"
        return a


def translate_item(item, cache):
    path = os.path.join(REPO, item["file"])
    if path not in cache:
        src = open(path).read()
        cache[path] = (src, parse_pyx(src) if path.endswith(".pyx") else ast.parse(src))
    src, tree = cache[path]
    func = find_func(tree, item["func"])
    lineno, expr = find_stmt(func, item["target"], item.get("occurrence", 0), item.get("matches"))
    part = item.get("part")       # for slices: "lower" | "upper" | "step"; tuples: index
    if part is not None:
        if isinstance(expr, ast.Slice):
            expr = getattr(expr, part)
        elif isinstance(expr, ast.Tuple):
            expr = expr.elts[int(part)]
            sub = item.get("subpart")
            if sub is not None and isinstance(expr, ast.Slice):
                expr = getattr(expr, sub)
        if expr is None:
            raise Untranslatable("slice part absent")
    sub = item.get("subexpr")     # select the first sub-expression whose ast.unparse text is this
    if sub is not None:
        want = ast.unparse(ast.parse(sub, mode="eval").body)
        found = None
        for node in ast.walk(expr if not isinstance(expr, ast.AugAssign) else expr.value):
            if isinstance(node, ast.expr):
                try:
                    if ast.unparse(node) == want:
                        found = node
                        break
                except Exception:  # noqa
                    pass
        if found is None:
            raise Untranslatable(f"sub-expression `{sub}` not found in `{item['target']}`")
        expr = found
    if isinstance(expr, ast.AugAssign):
        # `x op= e` is translated as the expression `x op e`
        expr = ast.BinOp(left=expr.target, op=expr.op, right=expr.value)
    text, ty = Tr(item).tr(expr)
    ret = item["ret"]
    if ret == "Int" and ty != "Int":
        raise Untranslatable(f"expression is {ty}, spec says Int: {text}")
    if ret == "Rat" and ty in ("Int", "RatCast"):
        text = f"(({text} : Int) : Rat)"
    if ret == "Bool":
        text = f"decide {text}"
    seg = (ast.get_source_segment(src, expr) if hasattr(expr, "lineno") else None) \
        or src.split("\n")[lineno - 1].strip()
    params = " ".join(f"({p} : {t})" for p, t in item["params"])
    return (f"/-- `{item['file']}:{lineno}` in `{item['func']}`: `{' '.join(seg.split())}` -/\n"
            f"def {item['name']} {params} : {ret} :=\n  {text}\n")


HEADER = """/- GENERATED by translate/gen_arith.py from the current /repo working tree — do not edit. -/
set_option linter.unusedVariables false
namespace Pyunicorn.Generated.%s

/-- `int(np.ceil(a / b))` on integers -/
def ceilDiv (a b : Int) : Int := (a + b - 1) / b

"""


def main(spec_path, out_path):
    spec = json.load(open(spec_path))
    ns = os.path.splitext(os.path.basename(out_path))[0]
    out = [HEADER % ns]
    cache = {}
    errors = []
    for item in spec:
        try:
            out.append(translate_item(item, cache))
        except (Untranslatable, SyntaxError, OSError) as e:
            errors.append(f"{item['name']}: {e}")
            out.append(f"-- UNTRANSLATABLE {item['name']}: {e}\n")
    out.append(f"end Pyunicorn.Generated.{ns}\n")
    text = "\n".join(out)
    old = open(out_path).read() if os.path.exists(out_path) else None
    if old != text:
        open(out_path, "w").write(text)
    for e in errors:
        print("gen_arith:", e)
    return 1 if errors else 0


if __name__ == "__main__":
    sys.exit(main(sys.argv[1], sys.argv[2]))
