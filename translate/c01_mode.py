"""c01_mode — second pass of translate/gen_C01.py (round 4): the *assignment events* of every
constructor and public mutator, in execution order.

For every class of fields_C01.json and every entry point (`__init__`, every public mutator of
the round-1 table, property setters included) the statements are walked in order; calls
`self.m(...)`, `Base.m(self, ...)`, `super().m(...)` and property setters are entered with a
*symbolic* parameter environment (depth-limited, recursion-guarded).  Every assignment
`self.f = <value>` to a plain attribute is recorded as an event

    (f, const c)          the value is a literal constant (after propagation through parameters:
                          `Network.__init__(self, A, directed=False)` -> `self.directed = directed`
                          is the event (directed, const False))
    (f, expr site deps)   any other value; `deps` = the attributes of `self` the value is computed
                          from (`directed=self.directed` -> deps [directed]; locals bound to
                          expressions carry the deps of those expressions), `site` identifies the
                          statement

`if` tests on constants known from the environment are pruned; otherwise both branches are walked
(body, then orelse) — an event *may* execute; the Lean model quantifies over all masks.
The output feeds `Pyunicorn.Mode.MTable` (lean/Pyunicorn/Model/MemoMode.lean).
"""
import ast

MAXDEPTH = 7


class Sym:
    """symbolic value: kind in {'const', 'expr'}"""
    __slots__ = ("kind", "value", "deps")

    def __init__(self, kind, value=None, deps=()):
        self.kind, self.value, self.deps = kind, value, frozenset(deps)

    def key(self):
        return (self.kind, repr(self.value), tuple(sorted(self.deps)))


FRESH = Sym("expr")


class ModeWalker:
    def __init__(self, an, classes, cfg, unknown):
        self.an, self.classes, self.cfg, self.unknown = an, classes, cfg, unknown

    # -- symbolic evaluation ----------------------------------------------------------------
    def sym(self, cname, node, senv, selfname):
        if node is None:
            return Sym("const", None)
        if isinstance(node, ast.Constant):
            return Sym("const", node.value)
        if isinstance(node, ast.Name):
            if node.id in senv:
                return senv[node.id]
            if node.id in ("True", "False", "None"):
                return Sym("const", {"True": True, "False": False, "None": None}[node.id])
            return FRESH
        deps = set()
        for n in ast.walk(node):
            if isinstance(n, ast.Attribute) and isinstance(n.value, ast.Name) \
                    and n.value.id == selfname and selfname is not None:
                deps |= self.attr_deps(cname, n.attr)
            elif isinstance(n, ast.Name) and n.id in senv:
                deps |= senv[n.id].deps
        return Sym("expr", None, deps)

    def attr_deps(self, cname, attr, depth=0):
        """fields behind `self.attr`: the attribute itself, or for a property the attributes its
        getter reads"""
        owner, getter = self.an.resolve(cname, attr, "getters")
        if getter is None or depth > 3:
            return {attr}
        sn = getter.args.args[0].arg if getter.args.args else None
        out = set()
        for n in ast.walk(getter):
            if isinstance(n, ast.Attribute) and isinstance(n.value, ast.Name) and n.value.id == sn:
                out |= self.attr_deps(cname, n.attr, depth + 1) if n.attr != attr else {attr}
        return out or {attr}

    def cenv(self, senv):
        return {k: v.value for k, v in senv.items() if v.kind == "const"}

    # -- parameter binding ------------------------------------------------------------------
    def bind(self, cname, fdef, call, senv, selfname, skip_self):
        params = [a.arg for a in fdef.args.args]
        if params and params[0] in ("self", "cls"):
            params = params[1:]
        new = {}
        defaults = fdef.args.defaults
        dparams = [a.arg for a in fdef.args.args][len(fdef.args.args) - len(defaults):]
        for p, d in zip(dparams, defaults):
            new[p] = self.sym(cname, d, {}, None)
        for p, d in zip(fdef.args.kwonlyargs, fdef.args.kw_defaults):
            if d is not None:
                new[p.arg] = self.sym(cname, d, {}, None)
        args = list(call.args)
        if skip_self and args:
            args = args[1:]
        opaque = any(isinstance(a, ast.Starred) for a in args) or \
            any(k.arg is None for k in call.keywords)
        if opaque:          # *args / **kwds at the call site: anything may be passed
            new = {p: FRESH for p in new}
        for p, a in zip(params, args):
            if not isinstance(a, ast.Starred):
                new[p] = self.sym(cname, a, senv, selfname)
        for k in call.keywords:
            if k.arg is not None:
                new[k.arg] = self.sym(cname, k.value, senv, selfname)
        return new

    # -- walking ----------------------------------------------------------------------------
    def entry(self, cname, owner, fdef, senv=None):
        self.events, self.stack = [], []
        self.walk_fn(cname, owner, fdef, senv or {}, 0)
        return self.events

    def walk_fn(self, cname, owner, fdef, senv, depth):
        key = id(fdef)
        if depth > MAXDEPTH or key in self.stack:
            return
        self.stack.append(key)
        selfname = fdef.args.args[0].arg if fdef.args.args else None
        if any(ast.unparse(d) == "staticmethod" for d in fdef.decorator_list):
            selfname = None
        senv = dict(senv)
        self.walk_body(cname, owner, fdef.body, senv, selfname, depth)
        self.stack.pop()

    def walk_body(self, cname, owner, stmts, senv, selfname, depth):
        for st in stmts:
            self.walk_stmt(cname, owner, st, senv, selfname, depth)

    def calls_in(self, cname, owner, node, senv, selfname, depth):
        """enter the calls inside an expression (inner calls first)"""
        if node is None:
            return
        for child in ast.iter_child_nodes(node):
            if isinstance(child, (ast.expr, ast.keyword, ast.comprehension, ast.Starred)):
                self.calls_in(cname, owner, child, senv, selfname, depth)
        if isinstance(node, ast.Call):
            self.walk_call(cname, owner, node, senv, selfname, depth)

    def walk_stmt(self, cname, owner, st, senv, selfname, depth):
        if isinstance(st, (ast.FunctionDef, ast.ClassDef)):
            return
        if isinstance(st, ast.If):
            self.calls_in(cname, owner, st.test, senv, selfname, depth)
            v = self.an.const(st.test, self.cenv(senv))
            if v is self.unknown:
                e1, e2 = dict(senv), dict(senv)
                self.walk_body(cname, owner, st.body, e1, selfname, depth)
                self.walk_body(cname, owner, st.orelse, e2, selfname, depth)
                for k in set(e1) | set(e2):      # join: keep what both branches agree on
                    a, b = e1.get(k), e2.get(k)
                    if a is not None and b is not None and a.key() == b.key():
                        senv[k] = a
                    else:
                        senv[k] = Sym("expr", None, (a.deps if a else frozenset()) |
                                      (b.deps if b else frozenset()))
            elif v:
                self.walk_body(cname, owner, st.body, senv, selfname, depth)
            else:
                self.walk_body(cname, owner, st.orelse, senv, selfname, depth)
            return
        if isinstance(st, (ast.Assign, ast.AnnAssign)):
            targets = st.targets if isinstance(st, ast.Assign) else [st.target]
            if st.value is None:
                return
            self.calls_in(cname, owner, st.value, senv, selfname, depth)
            val = self.sym(cname, st.value, senv, selfname)
            for t in targets:
                self.assign(cname, owner, t, val, st, senv, selfname, depth)
            return
        if isinstance(st, ast.AugAssign):
            self.calls_in(cname, owner, st.value, senv, selfname, depth)
            if isinstance(st.target, ast.Name):
                old = senv.get(st.target.id, FRESH)
                new = self.sym(cname, st.value, senv, selfname)
                senv[st.target.id] = Sym("expr", None, old.deps | new.deps)
            else:
                x = self.self_attr(st.target, selfname)
                if x is not None and not x.startswith("_mut_"):
                    new = self.sym(cname, st.value, senv, selfname)
                    self.emit(cname, x, Sym("expr", None, new.deps | {x}), st)
            return
        if isinstance(st, (ast.For, ast.While)):
            if isinstance(st, ast.For):
                self.calls_in(cname, owner, st.iter, senv, selfname, depth)
                it = self.sym(cname, st.iter, senv, selfname)
                for n in ast.walk(st.target):
                    if isinstance(n, ast.Name):
                        senv[n.id] = Sym("expr", None, it.deps)
            else:
                self.calls_in(cname, owner, st.test, senv, selfname, depth)
            # locals assigned in the loop are unknown on entry of later iterations
            for n in ast.walk(st):
                if isinstance(n, (ast.Assign, ast.AugAssign, ast.AnnAssign)):
                    tg = n.targets if isinstance(n, ast.Assign) else [n.target]
                    for t in tg:
                        for m in ast.walk(t):
                            if isinstance(m, ast.Name) and m.id in senv and senv[m.id].kind == "const":
                                senv[m.id] = Sym("expr", None, senv[m.id].deps)
            self.walk_body(cname, owner, st.body, senv, selfname, depth)
            self.walk_body(cname, owner, st.orelse, senv, selfname, depth)
            return
        if isinstance(st, ast.Try):
            for blk in (st.body, *[h.body for h in st.handlers], st.orelse, st.finalbody):
                self.walk_body(cname, owner, blk, senv, selfname, depth)
            return
        if isinstance(st, ast.With):
            for it in st.items:
                self.calls_in(cname, owner, it.context_expr, senv, selfname, depth)
            self.walk_body(cname, owner, st.body, senv, selfname, depth)
            return
        for _, val in ast.iter_fields(st):
            if isinstance(val, ast.AST):
                self.calls_in(cname, owner, val, senv, selfname, depth)
            elif isinstance(val, list):
                for v in val:
                    if isinstance(v, ast.stmt):
                        self.walk_stmt(cname, owner, v, senv, selfname, depth)
                    elif isinstance(v, ast.AST):
                        self.calls_in(cname, owner, v, senv, selfname, depth)

    def self_attr(self, node, selfname):
        if isinstance(node, ast.Attribute) and isinstance(node.value, ast.Name) \
                and node.value.id == selfname and selfname is not None:
            return node.attr
        return None

    def emit(self, cname, field, val, st):
        site = (getattr(st, "lineno", 0), getattr(st, "col_offset", 0), field)
        self.events.append((field, val, site))

    def assign(self, cname, owner, t, val, st, senv, selfname, depth):
        if isinstance(t, (ast.Tuple, ast.List)):
            for e in t.elts:
                self.assign(cname, owner, e, Sym("expr", None, val.deps), st, senv, selfname, depth)
            return
        if isinstance(t, ast.Name):
            senv[t.id] = val
            return
        x = self.self_attr(t, selfname)
        if x is not None:
            if x.startswith("_mut_"):
                return
            sowner, setter = self.an.resolve(cname, x, "setters")
            if setter is not None:
                params = [a.arg for a in setter.args.args][1:]
                self.walk_fn(cname, sowner.name, setter, {params[0]: val} if params else {},
                             depth + 1)
                return
            self.emit(cname, x, val, st)
            return
        # self.f[...] = v / self.f.attr = v: an in-place edit, depends on the old content
        base = t
        while isinstance(base, (ast.Subscript, ast.Attribute)):
            x = self.self_attr(base, selfname)
            if x is not None:
                if not x.startswith("_mut_"):
                    self.emit(cname, x, Sym("expr", None, val.deps | self.attr_deps(cname, x)), st)
                return
            base = base.value
        if isinstance(base, ast.Name) and base.id in senv:
            senv[base.id] = Sym("expr", None, senv[base.id].deps | val.deps)

    def walk_call(self, cname, owner, node, senv, selfname, depth):
        f = node.func
        x = self.self_attr(f, selfname)
        if x is not None:
            o2, fdef = self.an.resolve(cname, x, "funcs")
            if fdef is not None:
                self.walk_fn(cname, o2.name, fdef,
                             self.bind(cname, fdef, node, senv, selfname, False), depth + 1)
            return
        if isinstance(f, ast.Attribute) and isinstance(f.value, ast.Name) \
                and f.value.id in self.classes and node.args \
                and isinstance(node.args[0], ast.Name) and node.args[0].id == selfname:
            o2, fdef = self.an.resolve(cname, f.attr, "funcs", start=f.value.id)
            if fdef is not None:
                self.walk_fn(cname, o2.name, fdef,
                             self.bind(cname, fdef, node, senv, selfname, True), depth + 1)
            return
        if isinstance(f, ast.Attribute) and isinstance(f.value, ast.Call) \
                and ast.unparse(f.value.func) == "super":
            mro = self.an.mro(cname)
            start = mro.index(owner) + 1 if owner in mro else 1
            for c in mro[start:]:
                ci = self.classes.get(c)
                if ci is not None and f.attr in ci.funcs:
                    self.walk_fn(cname, c, ci.funcs[f.attr],
                                 self.bind(cname, ci.funcs[f.attr], node, senv, selfname, False),
                                 depth + 1)
                    break
            return
        # an in-place method on a local / field: x.sort(), A.flat[...] handled as assignment
        if isinstance(f, ast.Attribute):
            inner = self.self_attr(f.value, selfname)
            if inner is not None and f.attr in ("sort", "fill", "resize", "put", "itemset"):
                self.emit(cname, inner, Sym("expr", None, self.attr_deps(cname, inner)), node)


def mode_tables(an, classes, cfg, tables, unknown):
    """{class: {"fields": [...], "ctor": [events], "mutators": {name: [events]}}} with
    event = [field, "const", repr] | [field, "expr", site, [deps]]"""
    w = ModeWalker(an, classes, cfg, unknown)
    out = {}
    for cname, t in tables.items():
        if "error" in t:
            continue
        entries = {}
        owner, fdef = an.resolve(cname, "__init__", "funcs")
        entries["__init__"] = w.entry(cname, owner.name, fdef) if fdef is not None else []
        for oname in sorted(t.get("mutators", {})):
            if "." in oname:
                continue
            if oname.startswith("set:"):
                o2, fd = an.resolve(cname, oname[4:], "setters")
            else:
                o2, fd = an.resolve(cname, oname, "funcs")
            if fd is None:
                continue
            entries[oname] = w.entry(cname, o2.name, fd)
        # fields that are assigned a literal constant somewhere in the class: only those can be
        # mode fields (>= 2 distinct constants); events of other fields are kept as well when a
        # candidate's value may flow through them (deps), i.e. all events are emitted and the
        # Lean side computes the taint closure
        out[cname] = {"entries": {k: [[f, v.kind, repr(v.value) if v.kind == "const" else None,
                                       sorted(v.deps), list(site)] for f, v, site in evs]
                                  for k, evs in entries.items()}}
    return out
