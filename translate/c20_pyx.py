"""C20: the typed-buffer kernels of the four numerics.pyx, read from the source text.

For every function (`def`, `cdef`, inline `cdef` helpers) of
{core,climate,funcnet,timeseries}/_ext/numerics.pyx this module lists every subscript
`buf[e0, e1, ...]` of a typed buffer (an `ndarray[T, ndim=k]` parameter or local, or a
memoryview parameter `T[:, :]`) and classifies it:

  closed   every index expression is closed-form integer arithmetic over the function's
           integer parameters, the loop variables of the enclosing `for v in range(..)`
           loops (whose bounds are closed themselves), single-assignment integer locals
           (`T = n_time`, `i_abs = i_rel + start_i`, `len_embedded = n_time - max_delay`,
           `m = int(len(nodes1))`) and the idiom `index = e0` / `index += 1` as the last
           statement of a `range` loop.  These are emitted as `PSite`s (array, axis, index
           expression, extent of the axis — the allocation expression of a local array or
           the shape symbol `<arr>_<axis>` of a parameter —, the loop ranges, and whether
           the subscript sits under a data-dependent condition).
  checked  an index is read from memory, drawn at random, or advanced by a `while` loop:
           left to Cython's bounds check (census only).
  pyobj    slices / list indices / too few indices: handled by NumPy, not by the buffer
           protocol (census only).

Also a census of the integer types of every typed local that is used as a counter
(`x += 1`, `x -= 1`) or receives a narrowing conversion.
"""
import ast
import os
import re


class Untranslatable(Exception):
    pass


PKGS = ["core", "climate", "funcnet", "timeseries"]
PREFIX = {"core": "core", "climate": "clim", "funcnet": "fn", "timeseries": "ts"}
INT_BITS = {"int": 32, "long": 64, "long int": 64, "unsigned int": 32, "bint": 32,
            "NODE_t": 32, "DEGREE_t": 16, "LAG_t": 8, "MASK_t": 8, "ADJ_t": 8,
            "Py_ssize_t": 64}
FLOAT_T = {"float", "double", "FIELD_t", "DFIELD_t", "WEIGHT_t", "DWEIGHT_t"}


# --------------------------------------------------------------------------- lexing

def strip_text(text):
    """blank out docstrings and comments, keep the line structure"""
    text = re.sub(r'"""(.*?)"""', lambda m: "\n" * m.group(0).count("\n"), text, flags=re.S)
    out = []
    for line in text.split("\n"):
        q, res = None, ""
        for ch in line:
            if q:
                res += ch
                if ch == q:
                    q = None
            elif ch in "\"'":
                q = ch
                res += ch
            elif ch == "#":
                break
            else:
                res += ch
        out.append(res.rstrip())
    return out


def logical_lines(lines):
    """-> [(lineno, indent, text)] with continuation lines joined"""
    res, cur, start, depth = [], "", None, 0
    for n, line in enumerate(lines, 1):
        if not cur and not line.strip():
            continue
        if not cur:
            start = n
            indent = len(line) - len(line.lstrip())
        piece = line.strip()
        cont = piece.endswith("\\")
        if cont:
            piece = piece[:-1].rstrip()
        cur = (cur + " " + piece) if cur else piece
        depth = 0
        q = None
        for ch in cur:
            if q:
                if ch == q:
                    q = None
            elif ch in "\"'":
                q = ch
            elif ch in "([{":
                depth += 1
            elif ch in ")]}":
                depth -= 1
        if cont or depth > 0:
            continue
        res.append((start, indent, cur))
        cur = ""
    if cur:
        raise Untranslatable("unterminated logical line at %s" % start)
    return res


def split_top(s):
    out, depth, cur = [], 0, ""
    for ch in s:
        if ch in "([":
            depth += 1
        if ch in ")]":
            depth -= 1
        if ch == "," and depth == 0:
            out.append(cur.strip())
            cur = ""
        else:
            cur += ch
    if cur.strip():
        out.append(cur.strip())
    return out


HEADER = re.compile(r"^(def|cdef|cpdef|inline)\s+((?:\w+\s+)*?)(\w+)\s*\((.*)\)\s*:\s*(.*)$")
CAST = re.compile(r"<\s*[A-Za-z_][\w ]*\*?\s*>")


def uncast(s):
    return CAST.sub("", s)


# --------------------------------------------------------------------------- functions

class Func:
    def __init__(self, pkg, name, line):
        self.pkg, self.name, self.line = pkg, name, line
        self.bufs = {}       # name -> dict(ndim, ctype, param, shape=[lean expr or None])
        self.scalars = {}    # name -> ctype  (typed C scalars: params and locals)
        self.params = []     # (name, kind, ctype, ndim) in order; kind in buf|int|float|obj
        self.stmts = []      # Stmt
        self.has_while = False


class Stmt:
    def __init__(self, idx, line, kind, stack, node=None, info=None):
        self.idx, self.line, self.kind, self.stack = idx, line, kind, stack
        self.node, self.info = node, info


def parse_param(p, f):
    p = " ".join(p.split())
    m = re.match(r"ndarray\[(\w+), ndim=(\d)([^\]]*)\] (\w+)( not None)?$", p)
    if m:
        f.bufs[m.group(4)] = dict(ndim=int(m.group(2)), ctype=m.group(1), param=True, shape=None,
                                  mode_c="mode='c'" in m.group(3))
        f.params.append((m.group(4), "buf", m.group(1), int(m.group(2))))
        return
    m = re.match(r"(\w+)\[([:,\s]+)\] (\w+)$", p)
    if m:
        nd = m.group(2).count(":")
        f.bufs[m.group(3)] = dict(ndim=nd, ctype=m.group(1), param=True, shape=None, mode_c=False)
        f.params.append((m.group(3), "buf", m.group(1), nd))
        return
    m = re.match(r"((?:long int|unsigned int|\w+)) (\w+)$", p)
    if m:
        ty, name = m.groups()
        f.scalars[name] = ty
        kind = "int" if ty in INT_BITS else "float" if ty in FLOAT_T else "obj"
        f.params.append((name, kind, ty, 0))
        return
    m = re.match(r"(\w+)$", p)
    if m:
        f.params.append((m.group(1), "obj", "object", 0))
        return
    raise Untranslatable(f"{f.name}: parameter {p!r}")


def alloc_shape(expr):
    """shape (list of python expression strings) of a freshly allocated array, or None"""
    e = expr.strip()
    m = re.match(r"np\.(zeros|ones|empty)\s*\((.*)\)$", e)
    if m:
        args = split_top(m.group(2))
        first = args[0].strip()
        if first.startswith("("):
            return [d for d in split_top(first[1:-1])]
        return [first]
    m = re.match(r"rd\.randint\s*\((.*)\)$", e)
    if m:
        for a in split_top(m.group(1)):
            mm = re.match(r"size\s*=\s*\((.*)\)$", a.strip())
            if mm:
                return split_top(mm.group(1))
        return None
    m = re.match(r"np\.array\s*\(\s*(\[\s*\]|\[\s*\[\s*\]\s*\])\s*,", e)
    if m:
        return ["0"] if m.group(1).count("[") == 1 else ["1", "0"]
    return None


def parse_decl(text, f, lineno, pending):
    text = text.strip()
    m = re.match(r"ndarray\[(\w+), ndim=(\d)([^\]]*)\]\s+(\w+)(?:\s*=\s*(.*))?$", text)
    if m:
        shape = alloc_shape(m.group(5)) if m.group(5) else None
        f.bufs[m.group(4)] = dict(ndim=int(m.group(2)), ctype=m.group(1), param=False,
                                  shape=shape, alloc=m.group(5), mode_c=False)
        if shape is not None and len(shape) != int(m.group(2)):
            raise Untranslatable(f"{f.name}: allocation of {m.group(4)} has {len(shape)} dims")
        return
    m = re.match(r"((?:long int|unsigned int|\w+))\s+(.*)$", text)
    if not m:
        raise Untranslatable(f"{f.name}:{lineno}: declaration {text!r}")
    ty = m.group(1)
    for d in split_top(m.group(2)):
        mm = re.match(r"(\w+)(?:\s*=\s*(.*))?$", d.strip())
        if not mm:
            raise Untranslatable(f"{f.name}:{lineno}: declarator {d!r}")
        f.scalars[mm.group(1)] = ty
        if mm.group(2) is not None:
            pending.append((lineno, f"{mm.group(1)} = {mm.group(2)}"))


def parse_functions(pkg, text):
    ll = logical_lines(strip_text(text))
    funcs = []
    k = 0
    while k < len(ll):
        lineno, indent, txt = ll[k]
        m = HEADER.match(txt)
        if not m or txt.startswith("cdef extern"):
            k += 1
            continue
        f = Func(pkg, m.group(3), lineno)
        f.keyword = m.group(1)
        for p in split_top(m.group(4)):
            parse_param(p, f)
        body = []
        if m.group(5).strip():
            body.append((lineno, indent + 4, m.group(5).strip()))
        k += 1
        while k < len(ll) and ll[k][1] > indent:
            body.append(ll[k])
            k += 1
        build(f, body)
        funcs.append(f)
    return funcs


def build(f, body):
    """declarations and the statement list with the stack of enclosing blocks"""
    stack = []          # (indent, kind, info)
    decl_indent = None
    n = 0
    for lineno, indent, txt in body:
        if decl_indent is not None:
            if indent > decl_indent:
                pend = []
                parse_decl(txt, f, lineno, pend)
                for ln, t in pend:
                    n = add_stmt(f, n, ln, t, list(b for b in stack))
                continue
            decl_indent = None
        while stack and indent <= stack[-1][0]:
            stack.pop()
        if txt == "cdef:":
            decl_indent = indent
            continue
        if txt.startswith("cdef "):
            pend = []
            parse_decl(txt[5:], f, lineno, pend)
            for ln, t in pend:
                n = add_stmt(f, n, ln, t, list(stack))
            continue
        txt = uncast(txt)
        m = re.match(r"for\s+(\w+)\s+in\s+(.*):$", txt)
        if m:
            var, it = m.groups()
            rng = None
            mm = re.match(r"range\s*\((.*)\)$", it.strip())
            if mm:
                rng = [ast.parse(a, mode="eval").body for a in split_top(mm.group(1))]
            node = ast.parse(it, mode="eval").body
            st = Stmt(n, lineno, "for", list(stack), node, dict(var=var, rng=rng))
            f.stmts.append(st)
            n += 1
            stack.append((indent, "for", st))
            continue
        m = re.match(r"(while|if|elif)\s+(.*):$", txt)
        if m:
            node = ast.parse(m.group(2).strip(), mode="eval").body
            kind = m.group(1)
            if kind == "while":
                f.has_while = True
            st = Stmt(n, lineno, kind, list(stack), node)
            f.stmts.append(st)
            n += 1
            stack.append((indent, kind, st))
            continue
        if txt == "else:":
            st = Stmt(n, lineno, "else", list(stack))
            f.stmts.append(st)
            n += 1
            stack.append((indent, "else", st))
            continue
        n = add_stmt(f, n, lineno, txt, list(stack))


def add_stmt(f, n, lineno, txt, stack):
    try:
        node = ast.parse(uncast(txt)).body[0]
    except SyntaxError:
        raise Untranslatable(f"{f.pkg}:{f.name}:{lineno}: statement {txt!r}")
    f.stmts.append(Stmt(n, lineno, "simple", stack, node))
    return n + 1


# --------------------------------------------------------------------------- analysis

class NotClosed(Exception):
    pass


def assignments(f):
    """name -> [(stmt, kind, rhs)]; kind in assign|aug|for|tuple"""
    res = {}
    for st in f.stmts:
        if st.kind == "for":
            res.setdefault(st.info["var"], []).append((st, "for", None))
        if st.kind != "simple":
            continue
        nd = st.node
        if isinstance(nd, ast.Assign):
            for t in nd.targets:
                if isinstance(t, ast.Name):
                    res.setdefault(t.id, []).append((st, "assign", nd.value))
                elif isinstance(t, ast.Tuple):
                    for e in t.elts:
                        if isinstance(e, ast.Name):
                            res.setdefault(e.id, []).append((st, "tuple", None))
        elif isinstance(nd, ast.AugAssign) and isinstance(nd.target, ast.Name):
            res.setdefault(nd.target.id, []).append((st, "aug", nd))
    return res


def loops_of(st):
    return [b[2] for b in st.stack if b[1] == "for"]


def in_stack(st, blk):
    return any(b[2] is blk for b in st.stack)


class Analysis:
    def __init__(self, f):
        self.f = f
        self.asg = assignments(f)
        self.param_ints = {n for n, k, ty, _ in f.params if k == "int" and INT_BITS[ty] >= 32}

    # -- closed expressions ------------------------------------------------------------
    def lean(self, node, st, depth=0):
        """Lean text of a closed integer expression used at statement `st`"""
        if depth > 12:
            raise NotClosed("depth")
        if isinstance(node, ast.Constant) and isinstance(node.value, int) \
                and not isinstance(node.value, bool):
            return str(node.value) if node.value >= 0 else f"({node.value})"
        if isinstance(node, ast.UnaryOp) and isinstance(node.op, ast.USub):
            return f"(-{self.lean(node.operand, st, depth)})"
        if isinstance(node, ast.BinOp) and isinstance(node.op, (ast.Add, ast.Sub, ast.Mult)):
            op = {ast.Add: "+", ast.Sub: "-", ast.Mult: "*"}[type(node.op)]
            return f"({self.lean(node.left, st, depth)} {op} {self.lean(node.right, st, depth)})"
        if isinstance(node, ast.Call) and isinstance(node.func, ast.Name):
            if node.func.id == "int" and len(node.args) == 1:
                return self.lean(node.args[0], st, depth)
            if node.func.id == "len" and len(node.args) == 1 and \
                    isinstance(node.args[0], ast.Name) and node.args[0].id in self.f.bufs \
                    and self.f.bufs[node.args[0].id]["param"]:
                return f'v "{node.args[0].id}_0"'
        if isinstance(node, ast.Name):
            return self.name(node.id, st, depth)
        raise NotClosed(ast.dump(node)[:60])

    def name(self, x, st, depth):
        f = self.f
        # innermost enclosing `for x in range(..)`
        for lp in reversed(loops_of(st)):
            if lp.info["var"] == x:
                self.loop_guard(lp)           # raises NotClosed if the range is not closed
                if f.scalars.get(x) not in INT_BITS or INT_BITS[f.scalars[x]] < 32:
                    raise NotClosed("loop variable type")
                for (s2, kind, _) in self.asg.get(x, []):
                    if kind != "for" and in_stack(s2, lp):
                        raise NotClosed("loop variable assigned in the body")
                return f'v "{x}"'
        a = self.asg.get(x, [])
        if not a:
            if x in self.param_ints:
                return f'v "{x}"'
            raise NotClosed(f"{x}: not an integer parameter")
        if x in self.param_ints or f.scalars.get(x) not in INT_BITS or INT_BITS[f.scalars[x]] < 32:
            raise NotClosed(f"{x}: type")
        if len(a) == 1 and a[0][1] == "assign":
            s0 = a[0][0]
            if s0.idx < st.idx and all(any(b[2] is c[2] for c in st.stack) for b in s0.stack) \
                    and not any(b[1] == "while" for b in s0.stack):
                return self.lean(a[0][2], s0, depth + 1)
            raise NotClosed(f"{x}: not dominated")
        if len(a) == 2 and a[0][1] == "assign" and a[1][1] == "aug":
            # index = e0 ... for k in range(n): <use>; index += 1
            s0, s1 = a[0][0], a[1][0]
            aug = a[1][2]
            lps = loops_of(s1)
            if isinstance(aug.op, ast.Add) and isinstance(aug.value, ast.Constant) \
                    and aug.value.value == 1 and lps:
                lp = lps[-1]
                body = [s for s in f.stmts if in_stack(s, lp)]
                if s1.stack and s1.stack[-1][2] is lp and body[-1] is s1 \
                        and s0.idx < lp.idx and len(s0.stack) == len(lp.stack) \
                        and all(b[2] is c[2] for b, c in zip(s0.stack, lp.stack)) \
                        and in_stack(st, lp) and st.idx < s1.idx \
                        and not any(b[1] == "while" for b in st.stack):
                    lo, hi, rev = self.loop_guard(lp)
                    if not rev:
                        return f'({self.lean(a[0][2], s0, depth + 1)} + (v "{lp.info["var"]}" - {lo}))'
            raise NotClosed(f"{x}: running")
        raise NotClosed(f"{x}: {len(a)} assignments")

    def loop_guard(self, lp):
        rng = lp.info["rng"]
        if rng is None:
            raise NotClosed("not a range loop")
        outer = Stmt(lp.idx, lp.line, "for", lp.stack)
        if len(rng) == 1:
            return "0", self.lean(rng[0], outer), False
        if len(rng) == 2:
            return self.lean(rng[0], outer), self.lean(rng[1], outer), False
        if len(rng) == 3 and isinstance(rng[2], ast.UnaryOp) and isinstance(rng[2].op, ast.USub) \
                and isinstance(rng[2].operand, ast.Constant) and rng[2].operand.value == 1:
            return self.lean(rng[0], outer), self.lean(rng[1], outer), True
        raise NotClosed("range step")

    def closed_loop(self, lp):
        try:
            self.loop_guard(lp)
            return True
        except NotClosed:
            return False

    def guard(self, st):
        gs, lvs = [], []
        for lp in loops_of(st):
            try:
                lo, hi, rev = self.loop_guard(lp)
            except NotClosed:
                # a data-driven loop (its variable cannot occur in a closed index); a loop over a
                # buffer parameter runs only if that buffer is not empty
                if isinstance(lp.node, ast.Name) and lp.node.id in self.f.bufs \
                        and self.f.bufs[lp.node.id]["param"]:
                    gs.append(f'decide (0 < v "{lp.node.id}_0")')
                continue
            var = lp.info["var"]
            if self.f.scalars.get(var) not in INT_BITS:
                continue
            lvs.append(var)
            if rev:     # range(a, b, -1): b < v <= a
                gs.append(f'decide ({hi} < v "{var}") && decide (v "{var}" ≤ {lo})')
            else:
                gs.append(f'decide ({lo} ≤ v "{var}") && decide (v "{var}" < {hi})')
        return gs, lvs

    # -- conditionality ------------------------------------------------------------------
    def exits(self):
        """loops that contain a break / return; (loop, stmt idx) of every continue"""
        brk, cont = [], []
        for st in self.f.stmts:
            if st.kind == "simple":
                lps = loops_of(st) + [b[2] for b in st.stack if b[1] == "while"]
                if isinstance(st.node, ast.Break):
                    inner = [b[2] for b in st.stack if b[1] in ("for", "while")]
                    if inner:
                        brk.append(inner[-1])
                elif isinstance(st.node, ast.Return):
                    brk.extend(lps)
                elif isinstance(st.node, ast.Continue):
                    inner = [b[2] for b in st.stack if b[1] in ("for", "while")]
                    if inner:
                        cont.append((inner[-1], st.idx))
        return brk, cont

    def sites(self):
        f = self.f
        brk, cont = self.exits()
        closed, checked, pyobj = [], [], []
        for st in f.stmts:
            if st.node is None:
                continue
            block_cond = any(b[1] in ("if", "elif", "else", "while") for b in st.stack) \
                or any(in_stack(st, lp) for lp in brk) \
                or any(in_stack(st, lp) and st.idx > i for lp, i in cont) \
                or any(not self.closed_loop(lp) for lp in loops_of(st))
            for sub, late in subscripts(st.node, f.bufs):
                arr = sub.value.id
                info = f.bufs[arr]
                idxs = sub.slice.elts if isinstance(sub.slice, ast.Tuple) else [sub.slice]
                text = ast.unparse(sub)
                if len(idxs) != info["ndim"] or any(isinstance(e, (ast.Slice, ast.List)) for e in idxs):
                    pyobj.append((arr, text, st.line))
                    continue
                try:
                    exprs = [self.lean(e, st) for e in idxs]
                    dims = []
                    for ax in range(info["ndim"]):
                        if info["param"]:
                            dims.append(f'v "{arr}_{ax}"')
                        elif info["shape"] is None:
                            raise NotClosed("allocation not read")
                        else:
                            # (single-assignment locals in the shape are resolved at the use)
                            dims.append(self.lean(ast.parse(info["shape"][ax], mode="eval").body, st))
                    # a local buffer that is rebound later has no fixed shape
                    if not info["param"] and any(k == "assign" for _, k, _ in self.asg.get(arr, [])):
                        raise NotClosed("buffer rebound")
                    gs, lvs = self.guard(st)
                except NotClosed as e:
                    checked.append((arr, text, st.line, str(e)))
                    continue
                for ax, (ex, dm) in enumerate(zip(exprs, dims)):
                    closed.append(dict(arr=arr, axis=ax, idx=ex, dim=dm, guard=gs, loopvars=lvs,
                                       cond=bool(block_cond or late), line=st.line, text=text))
        return closed, checked, pyobj


def subscripts(node, bufs):
    """[(Subscript node of a typed buffer, evaluated only conditionally within the statement)]"""
    out = []

    def walk(n, late):
        if isinstance(n, ast.BoolOp):
            for k, v in enumerate(n.values):
                walk(v, late or k > 0)
            return
        if isinstance(n, ast.IfExp):
            walk(n.test, late)
            walk(n.body, True)
            walk(n.orelse, True)
            return
        if isinstance(n, ast.Subscript) and isinstance(n.value, ast.Name) and n.value.id in bufs:
            out.append((n, late))
        for c in ast.iter_child_nodes(n):
            walk(c, late)
    walk(node, False)
    return out


def counters(f, asg):
    """typed integer locals narrower than 64 bits that are incremented / decremented or
    receive a value through a narrowing conversion: (name, ctype, bits, how)"""
    res = []
    for name, lst in sorted(asg.items()):
        ty = f.scalars.get(name)
        if ty not in INT_BITS:
            continue
        hows = set()
        for st, kind, rhs in lst:
            if kind == "aug":
                hows.add("+=" if isinstance(rhs.op, ast.Add) else "-=" if isinstance(rhs.op, ast.Sub)
                         else "op=")
        if hows:
            res.append((name, ty, INT_BITS[ty], "/".join(sorted(hows))))
    return res


def buffer_counters(f):
    """typed buffers with an integer element type that are incremented / decremented in place
    (`nR[j] -= 1`, `hist[k-1] += 1`): (array, ctype, bits, how)"""
    res = set()
    for st in f.stmts:
        nd = st.node
        if st.kind == "simple" and isinstance(nd, ast.AugAssign) and isinstance(nd.target, ast.Subscript) \
                and isinstance(nd.target.value, ast.Name) and nd.target.value.id in f.bufs:
            b = f.bufs[nd.target.value.id]
            if b["ctype"] in INT_BITS:
                res.add((nd.target.value.id, b["ctype"], INT_BITS[b["ctype"]],
                         "+=" if isinstance(nd.op, ast.Add) else "-="))
    return sorted(res)


def analyse(src_root):
    """-> list of dict per function"""
    out = []
    for pkg in PKGS:
        text = open(os.path.join(src_root, pkg, "_ext", "numerics.pyx")).read()
        for f in parse_functions(pkg, text):
            an = Analysis(f)
            closed, checked, pyobj = an.sites()
            if f.keyword == "inline":
                # helpers called with data-dependent arguments: nothing is closed-form here
                checked += [(c["arr"], c["text"], c["line"], "argument of an inline helper")
                            for c in closed if c["axis"] == 0]
                closed = []
            lvs = []
            for s in closed:
                for v in s["loopvars"]:
                    if v not in lvs:
                        lvs.append(v)
            out.append(dict(pkg=pkg, name=f.name, line=f.line, key=f"{pkg}:{f.name}", keyword=f.keyword,
                            lean=f"{PREFIX[pkg]}_{f.name.lstrip('_')}",
                            params=f.params, bufs=f.bufs, closed=closed, checked=checked,
                            pyobj=pyobj, loopvars=lvs, has_while=f.has_while,
                            counters=counters(f, an.asg), buffer_counters=buffer_counters(f)))
    return out
