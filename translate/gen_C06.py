#!/usr/bin/env python3
"""gen_C06 — effect summaries: in-place statements applied to values that are *shared*
(results of cached methods, object fields, caller arguments), extracted from the current
source into lean/Pyunicorn/Generated/StructC06.lean.

A small intra-procedural taint pass over every method of every class under
src/pyunicorn (and module-level functions):

  sources   x = self.m(...)      m cached                 -> shared("result", m)
            x = self.attr        data attribute / property -> shared("field", attr)
            x  a parameter                                 -> shared("arg", name)
            x = obj.m(...)       obj an owned Cached object (self.data, self.grid, data, grid …)
                                 and m cached there        -> shared("result", obj.m)
  views     y = x.T | x.reshape(..) | x[a:b] | x.ravel() | x.view(..) | np.asarray(x)
            | x.real | x.imag | x.flat | x.squeeze()        keep the taint
  fresh     x.copy() | np.array(x) | x.astype(..) | to_cy(x, ..) | arithmetic | anything else
  in-place  x[...] = v | x op= v | x.sort() | x.fill(v) | x.shape = .. | np.fill_diagonal(x, v)
            | np.random.shuffle(x) | np.put*/np.place(x, ..) | f(x) with f in INPLACE_FUNCS
  restore   recognised only in two literal forms (validated dynamically by harness/c06.py):
              x[m] = c … x[m] = np.inf       with  m = np.isinf(x)  (or `x == np.inf`)
              np.fill_diagonal(x, np.inf) … np.fill_diagonal(x, 0)
            the restoring statement must be the last edit of x in the function.

Edits of arguments in functions whose docstring says "in place"/"in-place" are documented
(the property exempts them) and are listed with kind "documented".
"""
import ast
import json
import os
import sys

sys.path.insert(0, os.path.dirname(os.path.abspath(__file__)))
import kernels_C06 as KC  # noqa: E402
import attrs_C06 as AT  # noqa: E402
import windows_C06 as WN  # noqa: E402

REPO = os.environ.get("VERIF_REPO", "/repo")
SRC = os.path.join(REPO, "src", "pyunicorn")

INPLACE_FUNCS = {"normalize_time_series_array", "normalize_time_series", "shuffle",
                 "fill_diagonal", "put", "place", "putmask", "copyto"}
VIEW_ATTRS = {"T", "real", "imag", "flat"}
VIEW_CALLS = {"reshape", "ravel", "view", "squeeze", "transpose", "swapaxes"}
VIEW_FUNCS = {"np.asarray", "np.ascontiguousarray", "np.ravel", "np.reshape", "np.transpose",
              "numpy.asarray", "np.atleast_2d", "np.atleast_1d"}
OWNED = {"data", "grid", "rp_x", "rp_y", "crp_xy", "self.data", "self.grid", "self.rp_x",
         "self.rp_y", "self.crp_xy"}
INPLACE_METHODS = {"sort", "fill", "resize", "itemset", "partition", "byteswap"}
# numpy functions whose result may share memory with their first argument
NP_VIEW = {"asarray", "ascontiguousarray", "asfortranarray", "asanyarray", "asfarray", "ravel",
           "reshape", "transpose", "atleast_1d", "atleast_2d", "atleast_3d", "squeeze", "require",
           "broadcast_to", "broadcast_arrays", "real", "imag", "diagonal", "expand_dims",
           "swapaxes", "moveaxis", "rollaxis", "flip", "fliplr", "flipud", "rot90", "split",
           "array_split", "hsplit", "vsplit", "dsplit", "nan_to_num", "as_strided",
           "sliding_window_view", "frombuffer", "from_dlpack", "asmatrix", "mat"}
NP_MODS = {"np", "numpy", "sp", "scipy", "linalg", "stats", "fft", "special", "sparse", "rd",
           "random"}
# constructors of new Python values
FRESH_BUILTINS = {"list", "dict", "set", "tuple", "range", "sorted", "zip", "enumerate", "int",
                  "float", "len", "sum", "abs", "min", "max", "round", "str", "bool"}
TO_CY_FRESH = [True]          # set by main() from the text of core/_ext/types.py


def parse_all():
    mods = {}
    for root, _, fns in os.walk(SRC):
        for fn in fns:
            if fn.endswith(".py"):
                p = os.path.join(root, fn)
                try:
                    mods[os.path.relpath(p, SRC)] = ast.parse(open(p).read())
                except SyntaxError:
                    pass
    return mods


def cached_names(mods):
    """names of all @Cached.method-decorated methods (any class)"""
    out = set()
    for tree in mods.values():
        for n in ast.walk(tree):
            if isinstance(n, ast.FunctionDef):
                for d in n.decorator_list:
                    if isinstance(d, ast.Call) and ast.unparse(d.func) == "Cached.method":
                        out.add(n.name)
    return out


class Pass:
    def __init__(self, fdef, cached, is_method, documented):
        self.f, self.cached, self.documented = fdef, cached, documented
        args = [a.arg for a in fdef.args.args + fdef.args.kwonlyargs]
        self.selfname = args[0] if (is_method and args) else None
        self.taint = {}
        for a in args:
            if a != self.selfname and a != "cls":
                self.taint[a] = ("arg", a)
        self.edits = []         # (lineno, target kind, target name, how, index text, value text)
        self.defs = {}          # name -> source text of its defining expression
        self.fresh = set()      # local names positively known to hold a new object
        self.field_alias = {}   # self.<attr> assigned a shared object in this function
        self.field_inits = []   # (line, attr, taint or None, positively fresh?) of `self.attr = e`
        self.kernels = {}       # local name -> kernel record (set by the caller)
        self.kcalls = []        # kernel call sites with the provenance of every array argument

    def origin(self, e):
        """taint of an expression (None = fresh)"""
        if isinstance(e, ast.Name):
            return self.taint.get(e.id)
        if isinstance(e, ast.Attribute):
            if isinstance(e.value, ast.Name) and e.value.id == self.selfname:
                # a field that was bound, in this function, to a caller argument / cached result
                # *is* that object
                return self.field_alias.get(e.attr, ("field", e.attr))
            if e.attr in VIEW_ATTRS:
                return self.origin(e.value)
            return None
        if isinstance(e, ast.Subscript):
            o = self.origin(e.value)
            if o is None:
                return None
            # basic slicing gives a view; integer / fancy indexing of an ndarray a copy or scalar
            sl = e.slice
            parts = sl.elts if isinstance(sl, ast.Tuple) else [sl]
            if all(isinstance(p, ast.Slice) or (isinstance(p, ast.Constant) and p.value is Ellipsis)
                   for p in parts):
                return o
            if any(isinstance(p, ast.Slice) for p in parts) and \
                    all(isinstance(p, (ast.Slice, ast.Constant, ast.Name, ast.BinOp)) for p in parts):
                return o       # x[i, :] — a row view
            return None
        if isinstance(e, ast.Call):
            fn = ast.unparse(e.func)
            if isinstance(e.func, ast.Attribute):
                base = e.func.value
                m = e.func.attr
                if isinstance(base, ast.Name) and base.id == self.selfname and m in self.cached:
                    return ("result", m)
                if ast.unparse(base) in OWNED and m in self.cached:
                    return ("result", ast.unparse(base).replace("self.", "") + "." + m)
                if m in VIEW_CALLS:
                    return self.origin(base)
                if m == "astype" and any(k.arg == "copy" and not (
                        isinstance(k.value, ast.Constant) and k.value.value is True)
                        for k in e.keywords):
                    return self.origin(base)           # astype(.., copy=False) may alias
                if m == "to_cy" or fn == "to_cy":
                    pass
            if fn in VIEW_FUNCS and e.args:
                return self.origin(e.args[0])
            if fn in ("np.array", "numpy.array") and e.args and any(
                    k.arg == "copy" and not (isinstance(k.value, ast.Constant)
                                             and k.value.value is True) for k in e.keywords):
                return self.origin(e.args[0])
            if fn == "to_cy" and e.args and not TO_CY_FRESH[0]:
                return self.origin(e.args[0])
            return None
        if isinstance(e, ast.IfExp):
            return self.origin(e.body) or self.origin(e.orelse)
        return None

    def is_fresh(self, e):
        """positively a new object (never: unknown)"""
        if self.origin(e) is not None:
            return False
        if isinstance(e, ast.Name):
            return e.id in self.fresh
        if isinstance(e, (ast.List, ast.Dict, ast.Set, ast.ListComp, ast.DictComp, ast.SetComp,
                          ast.Constant, ast.BinOp, ast.UnaryOp, ast.Compare, ast.BoolOp,
                          ast.JoinedStr)):
            return True
        if isinstance(e, ast.Tuple):
            return all(self.is_fresh(x) for x in e.elts)
        if isinstance(e, ast.IfExp):
            return self.is_fresh(e.body) and self.is_fresh(e.orelse)
        if isinstance(e, ast.Attribute) and e.attr in VIEW_ATTRS:
            return self.is_fresh(e.value)
        if isinstance(e, ast.Subscript):
            return self.is_fresh(e.value)
        if isinstance(e, ast.Call):
            fn = ast.unparse(e.func)
            if fn == "to_cy":
                return TO_CY_FRESH[0]
            if isinstance(e.func, ast.Name):
                return fn in FRESH_BUILTINS or fn[:1].isupper()
            if isinstance(e.func, ast.Attribute):
                m, base = e.func.attr, e.func.value
                chain = base
                while isinstance(chain, ast.Attribute):
                    chain = chain.value
                root = chain.id if isinstance(chain, ast.Name) else ""
                if root in NP_MODS:
                    if m in NP_VIEW:
                        return bool(e.args) and self.is_fresh(e.args[0])
                    if m == "array":
                        return not any(k.arg == "copy" for k in e.keywords) or \
                            (bool(e.args) and self.is_fresh(e.args[0]))
                    return True
                if m in ("copy", "flatten", "tolist", "nonzero", "sum", "mean", "std", "cumsum",
                         "argsort", "round", "conj", "dot", "toarray", "todense", "tocsc", "tocsr",
                         "max", "min", "any", "all", "repeat", "take", "clip", "prod", "var",
                         "argmax", "argmin", "astype"):
                    if m == "astype" and any(k.arg == "copy" for k in e.keywords):
                        return self.is_fresh(base)
                    return True
                if m in VIEW_CALLS:
                    return self.is_fresh(base)
        return False

    def record(self, node, target_expr, how, index="", value=""):
        o = self.origin(target_expr)
        if o is not None:
            self.edits.append({"line": node.lineno, "kind": o[0], "name": o[1], "how": how,
                               "var": ast.unparse(target_expr), "index": index, "value": value})

    def run(self):
        for st in ast.walk(self.f):
            if isinstance(st, (ast.FunctionDef, ast.Lambda)) and st is not self.f:
                continue
        self.visit_block(self.f.body)
        return self.classify()

    def visit_block(self, stmts):
        for st in stmts:
            self.visit(st)

    def visit(self, st):
        if isinstance(st, (ast.FunctionDef, ast.ClassDef)):
            return
        if isinstance(st, ast.Assign):
            for t in st.targets:
                self.assign(st, t, st.value)
        elif isinstance(st, ast.AnnAssign) and st.value is not None:
            self.assign(st, st.target, st.value)
        elif isinstance(st, ast.AugAssign):
            if isinstance(st.target, ast.Name):
                self.record(st, st.target, "augassign", "", ast.unparse(st.value))
            elif isinstance(st.target, ast.Subscript):
                self.record(st, st.target.value, "augassign-item", ast.unparse(st.target.slice),
                            ast.unparse(st.value))
            elif isinstance(st.target, ast.Attribute):
                # self.x *= 2 on an array attribute
                if isinstance(st.target.value, ast.Name) and st.target.value.id == self.selfname:
                    pass
        elif isinstance(st, ast.Expr) and isinstance(st.value, ast.Call):
            self.call_stmt(st, st.value)
        elif isinstance(st, ast.Delete):
            for t in st.targets:
                if isinstance(t, ast.Subscript):
                    self.record(st, t.value, "delitem", ast.unparse(t.slice))
        elif isinstance(st, ast.Return) and st.value is not None:
            self.scan_calls(st, st.value)
        if isinstance(st, (ast.If, ast.While)):
            self.scan_calls(st, st.test)
        elif isinstance(st, ast.For):
            self.scan_calls(st, st.iter)
        elif isinstance(st, ast.With):
            for it in st.items:
                self.scan_calls(st, it.context_expr)
        # nested blocks
        for field in ("body", "orelse", "finalbody", "handlers"):
            sub = getattr(st, field, None)
            if isinstance(sub, list):
                for s in sub:
                    if isinstance(s, ast.stmt):
                        self.visit(s)
                    elif isinstance(s, ast.ExceptHandler):
                        self.visit_block(s.body)
        if isinstance(st, ast.For) and isinstance(st.target, ast.Name):
            self.taint.pop(st.target.id, None)
            self.fresh.discard(st.target.id)

    def assign(self, st, target, value):
        if isinstance(target, ast.Name):
            # calls nested in the right-hand side act before the name is rebound
            self.scan_calls(st, value)
            o = self.origin(value)
            fr = self.is_fresh(value)
            if o is not None:
                self.taint[target.id] = o
            else:
                self.taint.pop(target.id, None)
            (self.fresh.add if fr else self.fresh.discard)(target.id)
            self.defs[target.id] = ast.unparse(value)
        elif isinstance(target, ast.Subscript):
            self.record(st, target.value, "setitem", ast.unparse(target.slice), ast.unparse(value))
            self.scan_calls(st, value)
        elif isinstance(target, ast.Attribute):
            if isinstance(target.value, ast.Name) and target.value.id == self.selfname:
                o = self.origin(value)
                self.field_inits.append((st.lineno, target.attr, o, self.is_fresh(value),
                                         ast.unparse(value)))
                if o is not None and o[0] in ("arg", "result"):
                    self.field_alias[target.attr] = o
                else:
                    self.field_alias.pop(target.attr, None)
            if target.attr in ("shape", "dtype", "flags") and not (
                    isinstance(target.value, ast.Name) and target.value.id == self.selfname):
                self.record(st, target.value, "set-" + target.attr, "", ast.unparse(value))
            self.scan_calls(st, value)
        elif isinstance(target, (ast.Tuple, ast.List)):
            for el in target.elts:
                if isinstance(el, ast.Name):
                    self.taint.pop(el.id, None)
                    self.fresh.discard(el.id)
                elif isinstance(el, ast.Subscript):
                    self.record(st, el.value, "setitem", ast.unparse(el.slice), "?")
            self.scan_calls(st, value)

    def scan_calls(self, st, expr):
        for n in ast.walk(expr):
            if isinstance(n, ast.Call):
                self.call_effect(st, n)

    def call_stmt(self, st, call):
        self.call_effect(st, call)
        for a in call.args:
            self.scan_calls(st, a)

    def call_effect(self, st, call):
        fn = call.func
        name = fn.attr if isinstance(fn, ast.Attribute) else (fn.id if isinstance(fn, ast.Name) else "")
        if isinstance(fn, ast.Attribute) and name in INPLACE_METHODS:
            self.record(st, fn.value, "method-" + name)
        if name in INPLACE_FUNCS and call.args:
            val = ast.unparse(call.args[1]) if len(call.args) > 1 else ""
            self.record(st, call.args[0], "call-" + name, "", val)
        if name == "partial" and call.args and isinstance(call.args[0], ast.Name) \
                and call.args[0].id in self.kernels:
            # functools.partial(kernel, a, b, ..): the bound arguments are the leading parameters
            inner = ast.Call(func=call.args[0], args=call.args[1:], keywords=call.keywords)
            inner.lineno = call.lineno
            self._partials = getattr(self, "_partials", {})
            inner = self._partials.setdefault(id(call), inner)
            n0 = len(self.kcalls)
            self.call_effect(st, inner)
            for c in self.kcalls[n0:]:
                c["via"] = "partial"
            return
        if isinstance(fn, ast.Name) and name in self.kernels:
            key, k = self.kernels[name]
            if any(id(call) == c["_id"] for c in self.kcalls):
                return
            args = []
            for i, pr in enumerate(k["params"]):
                if not pr["array"]:
                    continue
                expr = call.args[i] if i < len(call.args) and not isinstance(
                    call.args[i], ast.Starred) else None
                for kw in call.keywords:
                    if kw.arg == pr["name"]:
                        expr = kw.value
                if expr is None:
                    args.append({"param": pr["name"], "prov": "unknown", "src": "", "expr": "?"})
                    continue
                o = self.origin(expr)
                if o is not None:
                    prov, srcname = o
                elif self.is_fresh(expr):
                    prov, srcname = "fresh", ""
                else:
                    prov, srcname = "unknown", ""
                args.append({"param": pr["name"], "prov": prov, "src": srcname,
                             "expr": ast.unparse(expr)})
                if pr["written"]:
                    self.record(st, expr, "kernel-" + name)
            self.kcalls.append({"_id": id(call), "line": call.lineno, "kernel": key, "args": args})

    def classify(self):
        """pair edits with restores; return list of edit records with a verdict"""
        out = []
        by_var = {}
        for e in self.edits:
            by_var.setdefault((e["kind"], e["name"], e["var"]), []).append(e)
        for key, es in by_var.items():
            es.sort(key=lambda e: e["line"])
            last = es[-1]
            restored = False
            if len(es) >= 2:
                first = es[0]
                # form 1: x[m] = c ... x[m] = np.inf, m = np.isinf(x) | x == np.inf
                if last["how"] == "setitem" and last["value"] in ("np.inf", "numpy.inf", "inf") \
                        and all(e["how"] == "setitem" and e["index"] == last["index"] for e in es):
                    d = self.defs.get(last["index"], "")
                    v = last["var"]
                    if d.replace(" ", "") in (f"np.isinf({v})", f"{v}==np.inf", f"np.isinf({v})".replace("np.", "numpy.")):
                        restored = True
                # form 2: fill_diagonal(x, inf) ... fill_diagonal(x, 0)
                if all(e["how"] == "call-fill_diagonal" for e in es) and last["value"] in ("0", "0.0") \
                        and first["value"] in ("np.inf", "numpy.inf"):
                    restored = True
            for e in es:
                rec = dict(e)
                if restored:
                    rec["verdict"] = "restored"
                    rec["form"] = "maskInf" if last["how"] == "setitem" else "diagInfZero"
                elif e["kind"] == "arg" and self.documented:
                    rec["verdict"] = "documented"
                else:
                    rec["verdict"] = "unrestored"
                out.append(rec)
        return out


def to_cy_copies(mods):
    """`to_cy` of core/_ext/types.py returns a new array iff its astype call says copy=True (or
    leaves the default); read from the source so that a change to copy=False is seen"""
    tree = mods.get(os.path.join("core", "_ext", "types.py"))
    if tree is None:
        return False
    for n in ast.walk(tree):
        if isinstance(n, ast.FunctionDef) and n.name == "to_cy":
            rets = [r for r in ast.walk(n) if isinstance(r, ast.Return)]
            if len(rets) != 1 or not isinstance(rets[0].value, ast.Call):
                return False
            c = rets[0].value
            if not (isinstance(c.func, ast.Attribute) and c.func.attr == "astype"):
                return False
            return all(k.arg != "copy" or (isinstance(k.value, ast.Constant) and k.value.value is True)
                       for k in c.keywords)
    return False


def main():
    out_path = sys.argv[1]
    cfg = json.load(open(os.path.join(os.path.dirname(os.path.abspath(__file__)), "fields_C06.json")))
    mods = parse_all()
    cached = cached_names(mods)
    funcs = []
    for mod, tree in sorted(mods.items()):
        for node in tree.body:
            if isinstance(node, ast.ClassDef):
                for n in node.body:
                    if isinstance(n, ast.FunctionDef):
                        decos = [ast.unparse(d) for d in n.decorator_list]
                        funcs.append((mod, node.name, n, "staticmethod" not in decos))
            elif isinstance(node, ast.FunctionDef):
                funcs.append((mod, "", node, False))
    # compiled kernels: write sets read from the .pyx / .c text
    kernels, cfuncs = KC.all_kernels(SRC)
    TO_CY_FRESH[0] = to_cy_copies(mods)
    imported = {mod: {loc: (key, kernels[key]) for loc, key in
                      KC.imported_kernels(tree, mod.split(os.sep)[0], kernels).items()}
                for mod, tree in mods.items()}
    # pass 1: every function's own edits
    per_func = {}
    kcalls, finits = [], []
    for mod, cname, f, is_method in funcs:
        doc = (ast.get_docstring(f) or "").lower()
        documented = "in place" in doc or "in-place" in doc or "inplace" in doc
        p = Pass(f, cached, is_method, documented)
        p.kernels = imported.get(mod, {})
        recs = p.run()
        per_func[(mod, cname, f.name)] = (f, is_method, recs)
        for c in p.kcalls:
            c = {k: v for k, v in c.items() if k != "_id"}
            c.update(module=mod, cls=cname, func=f.name)
            kcalls.append(c)
        for line, attr, o, fr, expr in p.field_inits:
            finits.append({"module": mod, "cls": cname, "func": f.name, "line": line, "field": attr,
                           "prov": o[0] if o else ("fresh" if fr else "unknown"),
                           "src": o[1] if o else "", "expr": expr})
    # summaries: parameter positions a function edits without restoring (by function name)
    arg_edit = {}
    for (mod, cname, fname), (f, is_method, recs) in per_func.items():
        params = [a.arg for a in f.args.args]
        if is_method and params:
            params = params[1:]
        for r in recs:
            if r["kind"] == "arg" and r["verdict"] != "restored" and r["name"] in params:
                if r["name"] in cfg["scalar_params"].get(f"{cname}.{fname}", []):
                    continue
                arg_edit.setdefault(fname, set()).add((params.index(r["name"]), r["name"]))
    # pass 2: call sites handing a shared value to a function that edits that parameter
    def edited_args_at_calls(f, fname, p):
        """(call, callee, taint of the expression bound to a parameter the callee edits)"""
        for call in [n for n in ast.walk(f) if isinstance(n, ast.Call)]:
            callee = call.func.attr if isinstance(call.func, ast.Attribute) else (
                call.func.id if isinstance(call.func, ast.Name) else None)
            if callee not in arg_edit or callee == fname:
                continue
            for pos, pname in sorted(arg_edit[callee]):
                expr = None
                if pos < len(call.args):
                    expr = call.args[pos]
                    # Class.f(self, x): shift by one
                    if isinstance(call.func, ast.Attribute) and isinstance(call.func.value, ast.Name) \
                            and call.func.value.id[:1].isupper() and call.args and \
                            isinstance(call.args[0], ast.Name) and call.args[0].id == p.selfname:
                        expr = call.args[pos + 1] if pos + 1 < len(call.args) else None
                for k in call.keywords:
                    if k.arg == pname:
                        expr = k.value
                if expr is None:
                    continue
                yield call, callee, expr, p.origin(expr)

    # round 4: transitive closure over pure-Python callees — a function that hands its own
    # parameter on to a callee editing it edits that parameter itself (any depth)
    passes = {}
    for key, (f, is_method, recs) in per_func.items():
        p = Pass(f, cached, is_method, False)
        p.visit_block(f.body)       # rebuild taint (flow-insensitive approximation: final map)
        passes[key] = p
    via_callee = {}
    grew = True
    while grew:
        grew = False
        for (mod, cname, fname), (f, is_method, recs) in per_func.items():
            params = [a.arg for a in f.args.args]
            if is_method and params:
                params = params[1:]
            for call, callee, expr, o in edited_args_at_calls(f, fname, passes[(mod, cname, fname)]):
                if o is None or o[0] != "arg" or o[1] not in params:
                    continue
                if o[1] in cfg["scalar_params"].get(f"{cname}.{fname}", []):
                    continue
                item = (params.index(o[1]), o[1])
                if item not in arg_edit.setdefault(fname, set()):
                    arg_edit[fname].add(item)
                    via_callee[(mod, cname, fname, o[1])] = (call.lineno, callee, ast.unparse(expr))
                    grew = True
    records = []
    for (mod, cname, fname), (f, is_method, recs) in per_func.items():
        p = passes[(mod, cname, fname)]
        extra = []
        doc = (ast.get_docstring(f) or "").lower()
        documented = "in place" in doc or "in-place" in doc or "inplace" in doc
        for (m2, c2, f2, pname), (line, callee, var) in via_callee.items():
            if (m2, c2, f2) == (mod, cname, fname):
                extra.append({"line": line, "kind": "arg", "name": pname,
                              "how": "via-callee-" + callee, "var": var, "index": "", "value": "",
                              "verdict": "documented" if documented else "unrestored"})
        for call, callee, expr, o in edited_args_at_calls(f, fname, p):
            if o is not None and o[0] in ("result", "field"):
                extra.append({"line": call.lineno, "kind": o[0], "name": o[1],
                              "how": "via-callee-" + callee, "var": ast.unparse(expr),
                              "index": "", "value": "", "verdict": "unrestored"})
        for r in recs + extra:
            r = dict(r)
            r.update(module=mod, cls=cname, func=fname, cached=fname in cached)
            records.append(r)
    # filters: what belongs in the table
    table = []
    for r in records:
        key = f'{r["module"]}:{r["cls"]}.{r["func"]}'
        is_mut = any(r["func"].startswith(pfx) for pfx in cfg["mutator_prefixes"])
        if r["kind"] == "field" and is_mut:
            continue                      # an object may rewrite its own fields in a mutator
        if r["kind"] == "arg":
            if (r["func"].startswith("_") or is_mut) and r["func"] != "__init__":
                continue                  # private helper: judged at its call sites (pass 2)
            if r["name"] in cfg["scalar_params"].get(f'{r["cls"]}.{r["func"]}', []):
                continue
        if key in cfg["exempt"]:
            r = dict(r, verdict="documented", exempt=cfg["exempt"][key])
        table.append(r)
    groups = {}
    for r in table:
        groups.setdefault((r["module"], r["cls"], r["func"]), []).append(r)
    lines = ["/- GENERATED by translate/gen_C06.py from the current /repo working tree — do not edit. -/",
             "import Pyunicorn.Model.Pure", "import Pyunicorn.Model.PureWindow",
             "namespace Pyunicorn.Generated.StructC06",
             "open Pyunicorn.Pure", ""]
    ents = []
    for (mod, cls, func), rs in sorted(groups.items()):
        eds = []
        for r in sorted(rs, key=lambda r: r["line"]):
            ok = "true" if r["verdict"] in ("restored", "documented") else "false"
            eds.append(f'⟨.{r["kind"]}, "{r["name"]}", {ok}⟩')
        ents.append(f'  ("{mod}:{cls}.{func}", [{", ".join(eds)}])')
    lines.append("def effects : List (String × List Edit) := [\n" + ",\n".join(ents) + "]\n")
    # restored variables and the literal form the restore was recognised in (the forms are
    # proved to be identities on the array content in Properties/C06.lean)
    rest = sorted({(f'{r["module"]}:{r["cls"]}.{r["func"]}:{r["var"]}', r["form"])
                   for r in table if r["verdict"] == "restored"})
    lines.append("def restores : List (String × Restore) := [\n" + ",\n".join(
        f'  ("{k}", .{f})' for k, f in rest) + "]\n")
    # ---- compiled kernels: parameters, write sets, call sites -------------------------------
    def b(x):
        return "true" if x else "false"
    kl = []
    for key, k in sorted(kernels.items()):
        ps = ", ".join(f'⟨"{q["name"]}", {b(q["array"])}, {b(q["written"])}, {b(q["returned"])}⟩'
                       for q in k["params"])
        kl.append(f'  ("{key}", [{ps}])')
    lines.append("def kernels : List (String × List KParam) := [\n" + ",\n".join(kl) + "]\n")
    cl = []
    for c in sorted(kcalls, key=lambda c: (c["module"], c["line"])):
        args = ", ".join(f'⟨"{a["param"]}", .{a["prov"]}, "{a["src"]}"⟩' for a in c["args"])
        cl.append(f'  ⟨"{c["module"]}:{c["cls"]}.{c["func"]}:{c["line"]}", "{c["kernel"]}", [{args}]⟩')
    lines.append("def kernelCalls : List KCall := [\n" + ",\n".join(cl) + "]\n")
    # ---- constructors: fields bound to a caller argument itself (no copy) and every in-place
    # edit of a field anywhere in the package (mutators included) ---------------------------
    bases = {}
    for mod, tree in mods.items():
        for node in tree.body:
            if isinstance(node, ast.ClassDef):
                bases[node.name] = [ast.unparse(x).split(".")[-1] for x in node.bases]

    def family(c):
        """the class, its ancestors and its descendants (a field of an object of class c can be
        edited by a method defined in any of them)"""
        anc, todo = set(), [c]
        while todo:
            x = todo.pop()
            if x in anc:
                continue
            anc.add(x)
            todo += bases.get(x, [])
        desc, grew = {c}, True
        while grew:
            grew = False
            for k, bs in bases.items():
                if k not in desc and any(x in desc for x in bs):
                    desc.add(k)
                    grew = True
        return anc | desc
    ctor_alias = [r for r in finits if r["prov"] == "arg" and r["cls"]]
    field_edits = sorted({(r["cls"], r["name"]) for r in records if r["kind"] == "field"
                          and r["verdict"] != "restored"})
    al = []
    for r in sorted(ctor_alias, key=lambda r: (r["module"], r["line"])):
        fam = ", ".join(f'"{c}"' for c in sorted(family(r["cls"])))
        al.append(f'  ⟨"{r["module"]}:{r["cls"]}.{r["func"]}", "{r["field"]}", "{r["src"]}", [{fam}]⟩')
    lines.append("def ctorAliases : List CtorAlias := [\n" + ",\n".join(al) + "]\n")
    lines.append("def fieldEdits : List (String × String) := [\n" + ",\n".join(
        f'  ("{c}", "{f}")' for c, f in field_edits) + "]\n")
    # ---- named link-attribute slots written / read inside value-returning methods (round 4) --
    attr_tables, attr_gens, value_methods = AT.class_tables(mods, None)
    lines.append(AT.lean_text(attr_tables))
    # ---- round 5: the statement block around every restored temporary edit -------------------
    wins = WN.windows(mods, per_func, table)
    lines.append(WN.lean_text(wins))
    lines.append("end Pyunicorn.Generated.StructC06")
    txt = "\n".join(lines) + "\n"
    if not os.path.exists(out_path) or open(out_path).read() != txt:
        open(out_path, "w").write(txt)
    json.dump({"table": table, "all": records, "kernels": kernels, "c_functions": cfuncs,
               "kernel_calls": kcalls, "field_inits": finits, "ctor_aliases": ctor_alias,
               "field_edits": field_edits, "to_cy_copies": TO_CY_FRESH[0],
               "attr_tables": attr_tables, "attr_gens": attr_gens,
               "value_methods": value_methods, "windows": wins}, open(os.path.splitext(out_path)[0] + ".json", "w"),
              indent=1)
    return 0


if __name__ == "__main__":
    sys.exit(main())
