#!/usr/bin/env python3
"""kernels_C06 — write sets of the compiled kernels and provenance of what Python hands them.

Used by translate/gen_C06.py (which writes the result into Generated/StructC06.lean / .json).

1. `c_writes(path)`       every function of a `src_numerics.c`: which pointer parameters it
                          stores through (`p[..] =`, `*q = `, `(*q)++`, `*q += ..` where `q` is the
                          parameter itself or a local pointer computed from it; fixpoint over
                          `q = <expr mentioning a pointer>`).
2. `pyx_kernels(path)`    every `def`/`cdef`/`cpdef` function of a `numerics.pyx`: its array
                          parameters (`ndarray[T, ndim=k] x`, `T[:, :] x`, `ndarray x`) and which
                          of them it writes: subscript stores / augmented stores on the parameter
                          or on a local alias of it, in-place methods, passing it (or its data
                          pointer `<T*> cnp.PyArray_DATA(x)` / `&x[0]`) to a callee (other kernel
                          of the file or extern C routine) at a written position; fixpoint over
                          the call graph.  Returning a parameter is recorded too (`returns`): the
                          result then *is* the argument object.
3. `call_sites(mods, kernels, classify)`  every Python call of a kernel: per array parameter the
                          argument expression and its provenance.

Nothing here is hand-listed: kernels, parameters, write sets and call sites are all read from the
current source text.
"""
import ast
import os
import re

ASSIGN_OPS = ("=", "+=", "-=", "*=", "/=", "|=", "&=", "^=", "%=", "//=", "**=", ">>=", "<<=")
INPLACE_METHODS = {"sort", "fill", "resize", "itemset", "partition", "byteswap", "put", "setfield",
                   "append", "extend", "insert", "pop", "remove", "clear", "update", "add", "reverse"}
INPLACE_NP = {"fill_diagonal", "put", "place", "putmask", "copyto", "shuffle", "put_along_axis"}


# ----------------------------------------------------------------------------------------------
# C
# ----------------------------------------------------------------------------------------------

def _strip_c_comments(txt):
    txt = re.sub(r"/\*.*?\*/", lambda m: "\n" * m.group(0).count("\n"), txt, flags=re.S)
    return re.sub(r"//[^\n]*", "", txt)


def _match(txt, i, open_c, close_c):
    """index just after the bracket closing the one opened at txt[i]"""
    depth = 0
    for j in range(i, len(txt)):
        if txt[j] == open_c:
            depth += 1
        elif txt[j] == close_c:
            depth -= 1
            if depth == 0:
                return j + 1
    return len(txt)


def c_writes(path):
    txt = _strip_c_comments(open(path).read())
    out = {}
    for m in re.finditer(r"^[A-Za-z_][\w \t\*]*?\b(\w+)\s*\(([^;{}()]*)\)\s*\{", txt, flags=re.M):
        name = m.group(1)
        params = []
        for p in m.group(2).split(","):
            p = p.strip()
            if not p:
                continue
            pm = re.search(r"(\w+)\s*(\[\s*\])?$", p)
            params.append((pm.group(1), "*" in p or bool(pm.group(2))))
        body_start = m.end() - 1
        body = txt[body_start:_match(txt, body_start, "{", "}")]
        ptrs = {p for p, isp in params if isp}
        taint = {p: {p} for p in ptrs}
        # local pointers: `T *a, *b = expr, c;` declarations
        local_ptrs = set(re.findall(r"[\s,]\*\s*(\w+)\s*(?=[=,;])", body)) - ptrs
        changed = True
        while changed:
            changed = False
            for am in re.finditer(r"(?<![\w\]\)\*])(\w+)\s*=(?!=)\s*([^;]*);", body):
                lhs, rhs = am.group(1), am.group(2)
                if lhs not in local_ptrs:
                    continue
                rhs = re.sub(r"\(\s*\*\s*\w+\s*\)", " ", rhs)       # (*p): a value, not a pointer
                rhs = re.sub(r"\*\s*\w+", " ", rhs)                 # *p / i*N
                src = set()
                for idn in re.findall(r"\w+", rhs):
                    src |= taint.get(idn, set())
                if not src <= taint.get(lhs, set()):
                    taint[lhs] = taint.get(lhs, set()) | src
                    changed = True
        writes = set()
        op = r"(?:=(?!=)|\+=|-=|\*=|/=|\|=|&=|\^=|%=|<<=|>>=|\+\+|--)"
        for nm, src in taint.items():
            if not src:
                continue
            n = re.escape(nm)
            pats = [rf"(?<![\w\.]){n}\s*\[",                 # p[...] op   (checked below)
                    rf"(?<![\w\)\]])\*\s*{n}\s*{op}",         # *p op
                    rf"\(\s*\*\s*{n}\s*\)\s*{op}",            # (*p) op
                    rf"(?:\+\+|--)\s*\(?\s*\*\s*{n}"]         # ++*p
            for k, pat in enumerate(pats):
                for sm in re.finditer(pat, body):
                    if k == 0:
                        j = _match(body, sm.end() - 1, "[", "]")
                        if not re.match(rf"\s*{op}", body[j:]):
                            continue
                    if k == 1:
                        # `a * p = ` cannot occur (p is a pointer); `x = *p == y` excluded by op
                        pass
                    writes |= src
        out[name] = {"params": params, "writes": sorted(writes)}
    return out


# ----------------------------------------------------------------------------------------------
# Cython
# ----------------------------------------------------------------------------------------------

def _strip_py_comments(txt):
    """remove # comments and the content of string literals (keeps line structure)"""
    out = []
    i, n = 0, len(txt)
    while i < n:
        c = txt[i]
        if c == "#":
            while i < n and txt[i] != "\n":
                i += 1
        elif txt.startswith('"""', i) or txt.startswith("'''", i):
            q = txt[i:i + 3]
            j = txt.find(q, i + 3)
            j = n if j < 0 else j + 3
            out.append(q + q + "\n " * txt[i:j].count("\n"))     # keeps the line numbering
            i = j
        elif c in "\"'":
            j = i + 1
            while j < n and txt[j] != c and txt[j] != "\n":
                j += 2 if txt[j] == "\\" else 1
            out.append(c + c)
            i = j + 1
        else:
            out.append(c)
            i += 1
    return "".join(out)


def _split_top(s, sep=","):
    parts, depth, cur = [], 0, []
    for ch in s:
        if ch in "([{":
            depth += 1
        elif ch in ")]}":
            depth -= 1
        if ch == sep and depth == 0:
            parts.append("".join(cur))
            cur = []
        else:
            cur.append(ch)
    if "".join(cur).strip():
        parts.append("".join(cur))
    return [p.strip() for p in parts]


def _param(p):
    """(name, is_array) of one Cython parameter declaration"""
    p = re.sub(r"\bnot\s+None\b", "", p).split("=")[0].strip() if "ndim=" not in p else \
        re.sub(r"\bnot\s+None\b", "", p).strip()
    m = re.search(r"(\w+)\s*$", p)
    name = m.group(1) if m else p
    head = p[:m.start()] if m else ""
    is_arr = bool(re.search(r"\bndarray\b", head)) or bool(re.search(r"\[\s*:", head))
    # an untyped parameter is a Python object (list of twins, ...): tracked like an array
    return name, is_arr or head.strip() in ("", "object", "list", "dict")


def _base_name(expr, arrays, objects=None):
    """array name an argument / right-hand-side expression is (a view of / pointer into)"""
    e = expr.strip()
    m = re.match(r"<[^>]*>\s*(.*)$", e)                       # <T*> cast
    if m:
        e = m.group(1).strip()
    m = re.match(r"(?:cnp\.|np\.)?PyArray_DATA\s*\(\s*(\w+)\s*\)$", e)
    if m:
        return m.group(1) if m.group(1) in arrays else None
    m = re.match(r"&\s*(\w+)\s*\[", e)
    if m:
        return m.group(1) if m.group(1) in arrays else None
    m = re.match(r"(?:np\.|numpy\.)(?:asarray|ascontiguousarray|ravel|reshape|transpose|"
                 r"atleast_1d|atleast_2d|asanyarray)\s*\(\s*(\w+)\s*[,)]", e)
    if m:
        return m.group(1) if m.group(1) in arrays else None
    m = re.match(r"(\w+)((?:\s*\.\s*(?:T|real|imag|flat|base|data)|\s*\.\s*(?:reshape|ravel|view|"
                 r"squeeze|transpose|swapaxes)\s*\([^()]*\)|\s*\[[^\[\]]*:[^\[\]]*\])*)\s*$", e)
    if m and m.group(1) in arrays:
        return m.group(1)
    m = re.match(r"(\w+)\s*\[[^\[\]]*\]\s*$", e)           # element of an object parameter
    if m and m.group(1) in arrays and objects and m.group(1) in objects:
        return m.group(1)
    return None


def pyx_kernels(path, cfuncs):
    raw = open(path).read()
    txt = _strip_py_comments(raw)
    heads = list(re.finditer(r"^(def|cdef|cpdef)\s+(?:inline\s+)?([\w\.\[\]\*, ]*?)\b(\w+)\s*\(",
                             txt, flags=re.M))
    tops = [m.start() for m in re.finditer(r"^\S", txt, flags=re.M)]
    funcs = {}
    for m in heads:
        name = m.group(3)
        p_open = m.end() - 1
        p_close = _match(txt, p_open, "(", ")")
        rest = txt[p_close:]
        cm = re.match(r"[^\n:]*:", rest)
        if not cm:
            continue                      # a prototype inside `cdef extern`, not a definition
        body_start = p_close + cm.end()
        nxt = [t for t in tops if t > body_start]
        body = txt[body_start:(nxt[0] if nxt else len(txt))]
        decls = [p for p in _split_top(txt[p_open + 1:p_close - 1]) if p]
        params = [_param(p) for p in decls]
        funcs[name] = {"kind": m.group(1), "line": txt.count("\n", 0, m.start()) + 1,
                       "params": params, "body": body,
                       "objects": {_param(p)[0] for p in decls
                                   if re.fullmatch(r"(?:object\s+|list\s+|dict\s+)?\w+", p.strip())}}
    # local aliases of array parameters:  [cdef ndarray[..]] y = x | x.T | <view of x>
    for f in funcs.values():
        arrays = {p: {p} for p, a in f["params"] if a}
        objs = set(f["objects"])
        # C scalars (`int i, j`, `NODE_t n1 = 0`, `double x`) hold values, never references
        scalars = set()
        for dm in re.finditer(r"^[ \t]*(?:cdef\s+)?(?:(?:long|unsigned|signed|short)\s+)*(?:int|long|double|"
                              r"float|bint|short|char|size_t|Py_ssize_t|\w+_t)\s+([A-Za-z_][^\n]*)$",
                              f["body"], flags=re.M):
            for part in _split_top(dm.group(1)):
                nm = re.match(r"\w+", part.strip())
                if nm and "[" not in part.split("=")[0]:
                    scalars.add(nm.group(0))
        changed = True
        while changed:
            changed = False
            for am in re.finditer(r"^[ \t]*(?:cdef\s+)?(?:[\w\.]+(?:\[[^\]]*\])?\s+)?(\w+)\s*=(?!=)\s*"
                                  r"([^\n\\]*(?:\\\n[^\n]*)*)$", f["body"], flags=re.M):
                lhs, rhs = am.group(1), am.group(2).replace("\\\n", " ")
                b = _base_name(rhs, arrays, objs) if lhs not in scalars else None
                if b is not None and not arrays[b] <= arrays.get(lhs, set()):
                    arrays[lhs] = arrays.get(lhs, set()) | arrays[b]
                    if b in objs:
                        objs.add(lhs)
                    changed = True
        f["alias"] = arrays
    # direct writes
    op = r"(?:=(?!=)|\+=|-=|\*=|/=|\|=|&=|\^=|%=|//=|\*\*=|<<=|>>=)"
    for f in funcs.values():
        w = set()
        body = f["body"]
        for nm, src in f["alias"].items():
            n = re.escape(nm)
            for sm in re.finditer(rf"(?<![\w\.]){n}\s*\[", body):
                j = _match(body, sm.end() - 1, "[", "]")
                if re.match(rf"\s*{op}", body[j:]):
                    w |= src
            if re.search(rf"(?<![\w\.]){n}\s*(?:\+=|-=|\*=|/=|\|=|&=|\^=|%=|//=|\*\*=)", body):
                w |= src
            if re.search(rf"(?<![\w\.]){n}\s*\.\s*(?:{'|'.join(INPLACE_METHODS)})\s*\(", body):
                w |= src
            if re.search(rf"(?<![\w\.]){n}\s*\.\s*(?:shape|dtype|flags\.\w+)\s*=(?!=)", body):
                w |= src
            if re.search(rf"\b(?:{'|'.join(INPLACE_NP)})\s*\(\s*{n}\b", body):
                w |= src
        f["writes"] = w
        # returned parameters (the result object is the argument object)
        rets = set()
        for rm in re.finditer(r"^[ \t]*return\b([^\n]*)$", body, flags=re.M):
            for part in _split_top(rm.group(1).strip().strip("()")):
                b = _base_name(part, f["alias"])
                if b is not None:
                    rets |= f["alias"][b]
        f["returns"] = rets
    # calls of other kernels / C routines: fixpoint
    def callee_written_positions(cname):
        if cname in funcs:
            g = funcs[cname]
            return [i for i, (p, a) in enumerate(g["params"]) if p in g["writes"]]
        if cname in cfuncs:
            g = cfuncs[cname]
            return [i for i, (p, isp) in enumerate(g["params"]) if p in g["writes"]]
        return []
    changed = True
    while changed:
        changed = False
        for fname, f in funcs.items():
            body = f["body"]
            for cname in list(funcs) + list(cfuncs):
                pos = callee_written_positions(cname)
                if not pos:
                    continue
                for cm in re.finditer(rf"(?<![\w\.]){re.escape(cname)}\s*\(", body):
                    end = _match(body, cm.end() - 1, "(", ")")
                    args = _split_top(body[cm.end():end - 1])
                    for i in pos:
                        if i < len(args):
                            b = _base_name(args[i], f["alias"])
                            if b is not None and not f["alias"][b] <= f["writes"]:
                                f["writes"] |= f["alias"][b]
                                changed = True
    out = {}
    for name, f in funcs.items():
        out[name] = {"kind": f["kind"], "line": f["line"],
                     "params": [{"name": p, "array": a, "written": p in f["writes"],
                                 "returned": p in f["returns"]} for p, a in f["params"]]}
    return out


def all_kernels(src):
    """{kernel name: {..., "module": "core/_ext/numerics.pyx"}} over every _ext directory"""
    out, cinfo = {}, {}
    for root, _, fns in sorted(os.walk(src)):
        if os.path.basename(root) != "_ext":
            continue
        cfuncs = {}
        for fn in sorted(fns):
            if fn.endswith(".c") and fn.startswith("src_"):
                cfuncs.update(c_writes(os.path.join(root, fn)))
        for fn in sorted(fns):
            if fn.endswith(".pyx"):
                rel = os.path.relpath(os.path.join(root, fn), src)
                for k, v in pyx_kernels(os.path.join(root, fn), cfuncs).items():
                    v["module"] = rel
                    out[f"{os.path.dirname(os.path.dirname(rel))}:{k}"] = v
        for k, v in cfuncs.items():
            cinfo[f"{os.path.relpath(root, src)}:{k}"] = v
    return out, cinfo


# ----------------------------------------------------------------------------------------------
# Python call sites
# ----------------------------------------------------------------------------------------------

def imported_kernels(tree, pkg, kernels):
    """local name -> kernel key, for `from ._ext.numerics import a, b as c`"""
    out = {}
    for n in ast.walk(tree):
        if isinstance(n, ast.ImportFrom) and n.module and n.module.endswith("_ext.numerics"):
            # relative import: level 1 = same package, absolute / deeper = named package
            parts = n.module.split(".")
            sub = parts[-3] if len(parts) >= 3 else pkg
            for a in n.names:
                key = f"{sub}:{a.name}"
                if key in kernels:
                    out[a.asname or a.name] = key
    return out


if __name__ == "__main__":
    import json
    import sys
    src = os.path.join(os.environ.get("VERIF_REPO", "/repo"), "src", "pyunicorn")
    ks, cs = all_kernels(src)
    json.dump({"kernels": ks, "c": cs}, sys.stdout, indent=1)
