#!/usr/bin/env python3
"""Structural translator for C08: regenerates lean/Pyunicorn/Generated/StructC08.lean from the
*current* text of `src/pyunicorn/timeseries/_ext/numerics.pyx` on every run.

What is read (the `cdef` blocks and C types are stripped, the rest goes through Python's `ast`):

  the four `inline int` coordinate helpers `i2J_vertline`, `i2J_diagline`, `ij2I_vertline`,
      `ij2I_diagline`                      -> Lean functions over `Int` with the same names
  `metric_supremum`                        -> `metric_supremum` (the `for l in range(dim)` fold over
      `Recurrence.V` with the source's `abs(a - b)` / `>` as `absdiff` / `gtV`; initial value from
      the `cdef` line)
  `cdef void _line_dist(...)`              -> `LS` (the loop-carried variables `k`, `missing_flag`,
      `line`, `hist`), `innerBody` (one iteration of the `for j` loop, every statement of the
      source in order, `continue` = return the state), `afterInner` (the statements after the inner
      loop), `lineDist` (the `if skip_main: N -= 1` prelude, both `range(...)` loops with the bound
      expressions of the source, initial values from the `cdef` line)
  the nine wrappers `_vertline_dist` ... `_diagline_dist_sequential_missingvalues`
                                           -> one Lean definition each: `lineDist` applied to the
      thirteen arguments of the wrapper's `_line_dist(...)` call, in the source's order
  `_rejection_sampling` (bootstrap of the line histograms)
                                           -> `RS`, `rejIter` (one iteration of the `while` loop, the
      two `random.random()` calls in evaluation order as parameters `u1`, `u2`), `rejLoop`

`Lemmas/LineDistGen.lean` / `Properties/C08.lean` prove that the generated kernel is the hand model
`Pyunicorn.LineDist` (hence the run-length specification); the driver executes the *generated*
definitions, so the correspondence compares the compiled kernels with code regenerated from their
own source.  Anything that no longer has a translatable shape raises -> broken tie.
"""
import ast
import os
import re
import sys
import textwrap

REPO = os.environ.get("VERIF_REPO", "/repo")
OUT = sys.argv[1]
PYX = os.path.join(REPO, "src/pyunicorn/timeseries/_ext/numerics.pyx")


class Shape(Exception):
    pass


def need(c, msg):
    if not c:
        raise Shape(msg)


SRC = open(PYX).read()
LINES = SRC.split("\n")

# ---------------------------------------------------------------------------------------------
# integer expressions (coordinate helpers, loop bounds)
# ---------------------------------------------------------------------------------------------


def int_expr(e, env):
    """Python integer expression -> Lean `Int` expression.  `env`: name -> Lean text."""
    if isinstance(e, ast.Name):
        need(e.id in env, f"unknown integer name {e.id}")
        return env[e.id]
    if isinstance(e, ast.Constant) and isinstance(e.value, int) and not isinstance(e.value, bool):
        return f"({e.value} : Int)"
    if isinstance(e, ast.BinOp) and isinstance(e.op, (ast.Add, ast.Sub, ast.Mult)):
        op = {ast.Add: "+", ast.Sub: "-", ast.Mult: "*"}[type(e.op)]
        return f"({int_expr(e.left, env)} {op} {int_expr(e.right, env)})"
    if isinstance(e, ast.Call) and isinstance(e.func, ast.Name) and e.func.id in env \
            and not e.keywords:
        return "(" + env[e.func.id] + " " + " ".join(int_expr(a, env) for a in e.args) + ")"
    raise Shape("integer expression not translatable: " + ast.unparse(e))


def inline_helpers():
    out = []
    for name, arity in (("i2J_vertline", 2), ("i2J_diagline", 2),
                        ("ij2I_vertline", 3), ("ij2I_diagline", 3)):
        ms = [m for m in re.finditer(
            r"^\s+inline int " + name + r"\(([^)]*)\):\s*return (.+)$", SRC, re.M)]
        need(len(ms) == 1, f"inline helper {name}: {len(ms)} definitions")
        args = [a.split()[-1] for a in ms[0].group(1).split(",")]
        need(len(args) == arity and all(a.split()[0] == "int" for a in ms[0].group(1).split(",")),
             f"{name}: signature changed")
        body = int_expr(ast.parse(ms[0].group(2).strip(), mode="eval").body,
                        {a: a for a in args})
        out.append((name, args, ms[0].group(0).strip(), body))
    return out


# ---------------------------------------------------------------------------------------------
# blocks of Cython functions
# ---------------------------------------------------------------------------------------------

def block_after(header_re):
    """lines of the function whose header matches, up to the next line that is indented no deeper
    than the header (blank lines skipped); returns (header_lineno, header_text, body_lines)"""
    idx = [i for i, l in enumerate(LINES) if re.match(header_re, l)]
    need(len(idx) == 1, f"{header_re}: {len(idx)} matches")
    i0 = idx[0]
    ind = len(LINES[i0]) - len(LINES[i0].lstrip())
    # the signature may span several lines: up to the line ending with `):`
    j = i0
    while not LINES[j].rstrip().endswith("):"):
        j += 1
        need(j < i0 + 12, "signature too long")
    header = " ".join(l.strip() for l in LINES[i0:j + 1])
    body = []
    k = j + 1
    while k < len(LINES):
        l = LINES[k]
        if l.strip() and len(l) - len(l.lstrip()) <= ind:
            break
        body.append(l)
        k += 1
    return i0 + 1, header, body


def strip_cdef(body):
    """remove the docstring and the `cdef:` block; return (cdef_lines, python_text)"""
    txt = "\n".join(body)
    txt = re.sub(r'^\s*""".*?"""\s*$', "", txt, count=1, flags=re.S | re.M)
    lines = txt.split("\n")
    cdef, rest, i = [], [], 0
    while i < len(lines):
        l = lines[i]
        if l.strip() == "cdef:":
            ind = len(l) - len(l.lstrip())
            i += 1
            while i < len(lines) and (not lines[i].strip() or
                                      len(lines[i]) - len(lines[i].lstrip()) > ind):
                if lines[i].strip():
                    cdef.append(lines[i].strip())
                i += 1
            continue
        rest.append(l)
        i += 1
    return cdef, textwrap.dedent("\n".join(rest))


def param_names(header):
    sig = header[header.index("(") + 1: header.rindex(")")]
    sig = re.sub(r"\[[^\]]*\]", "", sig)
    return [p.split()[-1] for p in sig.split(",") if p.strip()]


# ---------------------------------------------------------------------------------------------
# metric_supremum
# ---------------------------------------------------------------------------------------------

def fexpr(e, env):
    """float expression over `V`"""
    if isinstance(e, ast.Name):
        need(e.id in env, f"unknown float name {e.id}")
        return env[e.id]
    if isinstance(e, ast.Call) and isinstance(e.func, ast.Name) and e.func.id == "abs" \
            and len(e.args) == 1 and isinstance(e.args[0], ast.BinOp) \
            and isinstance(e.args[0].op, ast.Sub):
        return f"(O.absdiff {fexpr(e.args[0].left, env)} {fexpr(e.args[0].right, env)})"
    if isinstance(e, ast.Subscript) and isinstance(e.value, ast.Name) \
            and e.value.id == env.get("@array") \
            and isinstance(e.slice, ast.Tuple) and len(e.slice.elts) == 2:
        a, b = e.slice.elts
        return f"({e.value.id} {int_expr(a, env)} {int_expr(b, env)})"
    raise Shape("float expression not translatable: " + ast.unparse(e))


def sup_fold(f, env, tmp, what):
    """the `for l in range(<dim>)` loop of the supremum metric: statements -> Lean `let`s"""
    lets = []
    for st in f.body:
        if isinstance(st, ast.Assign) and len(st.targets) == 1 and \
                isinstance(st.targets[0], ast.Name) and st.targets[0].id == tmp:
            lets.append(f"let {tmp} := {fexpr(st.value, env)}")
            env[tmp] = tmp
        elif isinstance(st, ast.If) and not st.orelse and len(st.body) == 1 and \
                isinstance(st.body[0], ast.Assign) and ast.unparse(st.body[0].targets[0]) == "diff" \
                and isinstance(st.test, ast.Compare) and len(st.test.ops) == 1:
            op = st.test.ops[0]
            a, b = fexpr(st.test.left, env), fexpr(st.test.comparators[0], env)
            if isinstance(op, ast.Gt):
                c = f"O.gt {a} {b}"
            elif isinstance(op, ast.Lt):
                c = f"O.gt {b} {a}"
            else:
                raise Shape(what + ": comparison " + ast.unparse(st.test))
            lets.append(f"let diff := if {c} then {fexpr(st.body[0].value, env)} else diff")
        else:
            raise Shape(what + ": statement " + ast.unparse(st))
    return lets


def metric_supremum():
    no, header, body = block_after(r"^\s+inline DFIELD_t metric_supremum\(")
    need(param_names(header) == ["I", "j", "dim", "E"], "metric_supremum: parameters changed")
    need("DFIELD_t[:,:] E" in header, "metric_supremum: type of E")
    cdef, txt = strip_cdef(body)
    init = [c for c in cdef if re.match(r"DFIELD_t\b", c)]
    need(len(init) == 1, "metric_supremum: cdef line of diff")
    m = re.match(r"DFIELD_t diff = (\S+), tmp_diff$", init[0])
    need(m and m.group(1) == "0", "metric_supremum: initial value of diff")
    tree = ast.parse(txt).body
    need(len(tree) == 2 and isinstance(tree[0], ast.For) and isinstance(tree[1], ast.Return)
         and ast.unparse(tree[1].value) == "diff", "metric_supremum: for + return diff expected")
    f = tree[0]
    need(ast.unparse(f.target) == "l" and ast.unparse(f.iter) == "range(dim)" and not f.orelse,
         "metric_supremum: loop header")
    env = {"I": "I", "j": "j", "l": "l", "diff": "diff", "@array": "E"}
    lets = sup_fold(f, env, "tmp_diff", "metric_supremum")
    return (f"/- numerics.pyx:{no}  {header}\n{txt.strip()}\n-/\n"
            "def metric_supremum {α : Type} (O : FOps α) (I j dim : Int) (E : Int → Int → α) : α :=\n"
            "  (List.range dim.toNat).foldl (fun (diff : α) (l : Nat) =>\n"
            "    let l : Int := l\n" +
            "".join(f"    {x}\n" for x in lets) +
            "    diff) O.zero\n")


def supremum_matrix():
    """`_supremum_distance_matrix_rp` (the matrix mode's distances; C07 anchors it, C08 needs its
    float operations next to `metric_supremum`'s): the `l` loop is translated statement by
    statement; the two outer loops and the symmetric store are checked literally and emitted as the
    closed form `distance[a, b]` (np.zeros elsewhere)."""
    no, header, body = block_after(r"^def _supremum_distance_matrix_rp\(")
    need(param_names(header) == ["n_time", "dim", "embedding"],
         "_supremum_distance_matrix_rp: parameters changed")
    need("ndarray[DFIELD_t, ndim=2] embedding" in header, "_supremum_distance_matrix_rp: type of embedding")
    cdef, txt = strip_cdef(body)
    need("int j, k, l, T = n_time, D = dim" in cdef and "DFIELD_t temp_diff, diff" in cdef,
         "_supremum_distance_matrix_rp: cdef lines " + str(cdef))
    need(any(re.match(r"ndarray\[DFIELD_t, ndim=2, mode='c'\] distance = \\?$", c) for c in cdef) and
         "np.zeros((n_time, n_time), dtype=DFIELD)" in cdef,
         "_supremum_distance_matrix_rp: distance = np.zeros((n_time, n_time)) expected: " + str(cdef))
    tree = ast.parse(txt).body
    need(len(tree) == 2 and isinstance(tree[0], ast.For) and isinstance(tree[1], ast.Return)
         and ast.unparse(tree[1].value) == "distance", "_supremum_distance_matrix_rp: for + return")
    fj = tree[0]
    need(ast.unparse(fj.target) == "j" and not fj.orelse
         and len(fj.body) == 1 and isinstance(fj.body[0], ast.For),
         "_supremum_distance_matrix_rp: outer loop")
    fk = fj.body[0]
    need(ast.unparse(fk.target) == "k" and not fk.orelse
         and len(fk.body) == 3, "_supremum_distance_matrix_rp: middle loop")

    def range1(f, env, what):
        need(isinstance(f.iter, ast.Call) and ast.unparse(f.iter.func) == "range"
             and len(f.iter.args) == 1 and not f.iter.keywords, what + ": range(<one bound>) expected")
        return int_expr(f.iter.args[0], env)
    # round 5: the bounds of the two outer loops and the targets of the store are TRANSLATED (the
    # loops are emitted as folds, `supremum_rp_loops`); `Properties/C08.lean` proves the folds equal
    # to the closed form below
    bound_j = range1(fj, {"T": "T"}, "_supremum_distance_matrix_rp: outer loop")
    bound_k = range1(fk, {"T": "T", "j": "j"}, "_supremum_distance_matrix_rp: middle loop")
    a0, fl, st = fk.body
    need(isinstance(a0, ast.Assign) and ast.unparse(a0) == "diff = 0",
         "_supremum_distance_matrix_rp: diff = 0")
    need(isinstance(fl, ast.For) and ast.unparse(fl.target) == "l" and
         ast.unparse(fl.iter) == "range(D)" and not fl.orelse, "_supremum_distance_matrix_rp: l loop")
    need(isinstance(st, ast.Assign) and ast.unparse(st.value) == "diff" and len(st.targets) >= 1,
         "_supremum_distance_matrix_rp: store of diff")
    stores = []
    for t in st.targets:                      # chained assignment: targets left to right
        need(isinstance(t, ast.Subscript) and ast.unparse(t.value) == "distance"
             and isinstance(t.slice, ast.Tuple) and len(t.slice.elts) == 2,
             "_supremum_distance_matrix_rp: store target " + ast.unparse(t))
        ia, ib = (int_expr(x, {"j": "j", "k": "k", "T": "T"}) for x in t.slice.elts)
        stores.append(f"let distance := store2 distance {ia} {ib} diff")
    env = {"j": "j", "k": "k", "l": "l", "diff": "diff", "@array": "embedding"}
    lets = sup_fold(fl, env, "temp_diff", "_supremum_distance_matrix_rp")
    return (f"/- numerics.pyx:{no}  {header}\n{txt.strip()}\n-/\n"
            "/-- the value stored into `distance[j, k]` and `distance[k, j]` -/\n"
            "def supremum_rp_entry {α : Type} (O : FOps α) (j k D : Int) "
            "(embedding : Int → Int → α) : α :=\n"
            "  (List.range D.toNat).foldl (fun (diff : α) (l : Nat) =>\n"
            "    let l : Int := l\n" +
            "".join(f"    {x}\n" for x in lets) +
            "    diff) O.zero\n\n"
            "/-- `distance[a, b]` on return: `for j in range(T): for k in range(j):` stores both "
            "triangles,\nthe diagonal keeps `np.zeros` -/\n"
            "def _supremum_distance_matrix_rp {α : Type} (O : FOps α) (n_time dim : Int) "
            "(embedding : Int → Int → α)\n    (a b : Int) : α :=\n"
            "  let T := n_time\n  let D := dim\n"
            "  if 0 ≤ b ∧ b < a ∧ a < T then supremum_rp_entry O a b D embedding\n"
            "  else if 0 ≤ a ∧ a < b ∧ b < T then supremum_rp_entry O b a D embedding\n"
            "  else O.zero\n\n"
            "/-- round 5: the two outer loops AS WRITTEN (bounds and store targets translated from the "
            "source): `distance`\nstarts as `np.zeros`, every iteration stores `diff` -/\n"
            "def supremum_rp_loops {α : Type} (O : FOps α) (n_time dim : Int) "
            "(embedding : Int → Int → α) : Int → Int → α :=\n"
            "  let T := n_time\n  let D := dim\n"
            f"  (List.range ({bound_j}).toNat).foldl (fun (distance : Int → Int → α) (j : Nat) =>\n"
            "    let j : Int := j\n"
            f"    (List.range ({bound_k}).toNat).foldl (fun (distance : Int → Int → α) (k : Nat) =>\n"
            "      let k : Int := k\n"
            "      let diff := supremum_rp_entry O j k D embedding\n" +
            "".join(f"      {x}\n" for x in stores) +
            "      distance) distance) (fun _ _ => O.zero)\n")


# ---------------------------------------------------------------------------------------------
# _line_dist
# ---------------------------------------------------------------------------------------------

LD_PARAMS = ["n_time", "hist", "R", "E", "eps", "dim", "metric", "black", "M", "missing_values",
             "i2J", "ij2I", "skip_main"]
IENV = {"i": "i", "j": "j", "I": "I", "N": "N", "i2J": "i2J", "ij2I": "ij2I"}


class Body:
    """CPS translation of the loop body into a Lean expression over `s : LS`."""

    def __init__(self):
        self.d_bound = None     # text of the expression assigned to `d`

    def bexpr(self, e):
        if isinstance(e, ast.Name):
            if e.id == "line":
                return "s.line"
            if e.id == "missing_flag":
                return "s.mf"
            if e.id in ("black", "missing_values", "skip_main"):
                return e.id
            raise Shape("boolean name " + e.id)
        if isinstance(e, ast.Constant) and isinstance(e.value, bool):
            return "true" if e.value else "false"
        if isinstance(e, ast.UnaryOp) and isinstance(e.op, ast.Not):
            return f"(!{self.bexpr(e.operand)})"
        if isinstance(e, ast.BoolOp):
            op = " && " if isinstance(e.op, ast.And) else " || "
            return "(" + op.join(self.bexpr(v) for v in e.values) + ")"
        if isinstance(e, ast.Subscript) and isinstance(e.value, ast.Name) and e.value.id == "M" \
                and not isinstance(e.slice, ast.Tuple):
            return f"(M {int_expr(e.slice, IENV)})"
        if isinstance(e, ast.Compare) and len(e.ops) == 1:
            l, r, op = e.left, e.comparators[0], e.ops[0]
            if isinstance(l, ast.Name) and l.id == "k" and isinstance(r, ast.Constant) \
                    and r.value == 0 and isinstance(op, (ast.NotEq, ast.Eq)):
                return "(s.k != 0)" if isinstance(op, ast.NotEq) else "(s.k == 0)"
            if isinstance(l, ast.Name) and l.id == "dim" and isinstance(r, ast.Constant) \
                    and r.value == 0 and isinstance(op, ast.Eq):
                return "dimZero"
            if isinstance(op, (ast.Eq, ast.NotEq)) and isinstance(r, ast.Name) and r.id == "black":
                eq = "==" if isinstance(op, ast.Eq) else "!="
                return f"({self.cellval(l)} {eq} black)"
            if isinstance(op, ast.Lt) or isinstance(op, ast.Gt):
                return self.cellval(e)
        raise Shape("boolean expression not translatable: " + ast.unparse(e))

    def cellval(self, e):
        """`R[I, j]` or `d < eps`"""
        if isinstance(e, ast.Subscript) and isinstance(e.value, ast.Name) and e.value.id == "R" \
                and isinstance(e.slice, ast.Tuple) and len(e.slice.elts) == 2:
            a, b = e.slice.elts
            return f"(R {int_expr(a, IENV)} {int_expr(b, IENV)})"
        if isinstance(e, ast.Compare) and len(e.ops) == 1:
            l, r, op = e.left, e.comparators[0], e.ops[0]
            names = {"d": self.d_bound, "eps": "eps"}

            def val(x):
                need(isinstance(x, ast.Name) and names.get(x.id), "distance comparison operand " +
                     ast.unparse(x))
                return names[x.id]
            if isinstance(op, ast.Lt):
                return f"(O.lt {val(l)} {val(r)})"
            if isinstance(op, ast.Gt):
                return f"(O.lt {val(r)} {val(l)})"
        raise Shape("cell value not translatable: " + ast.unparse(e))

    def stmts(self, sts, ind):
        """Lean expression (lines) for the statement list followed by `return s`"""
        pad = "  " * ind
        if not sts:
            return [pad + "s"]
        st, rest = sts[0], sts[1:]
        if isinstance(st, ast.Continue):
            return [pad + "s"]
        if isinstance(st, ast.Assign) and len(st.targets) == 1:
            t = st.targets[0]
            if isinstance(t, ast.Name):
                if t.id == "I":
                    return [pad + f"let I : Int := {int_expr(st.value, IENV)}"] + \
                        self.stmts(rest, ind)
                if t.id == "d":
                    v = st.value
                    need(isinstance(v, ast.Call) and ast.unparse(v.func) == "metric" and
                         [ast.unparse(a) for a in v.args] == ["I", "j", "dim", "E"],
                         "d = metric(I, j, dim, E) expected, got " + ast.unparse(st))
                    self.d_bound = "(metric I j)"
                    return self.stmts(rest, ind)
                if t.id == "line":
                    return [pad + f"let s : LS := {{ s with line := {self.bexpr(st.value)} }}"] + \
                        self.stmts(rest, ind)
                if t.id == "missing_flag":
                    return [pad + f"let s : LS := {{ s with mf := {self.bexpr(st.value)} }}"] + \
                        self.stmts(rest, ind)
                if t.id == "k":
                    need(isinstance(st.value, ast.Constant) and st.value.value == 0,
                         "k is only ever reset to 0: " + ast.unparse(st))
                    return [pad + "let s : LS := { s with k := 0 }"] + self.stmts(rest, ind)
        if isinstance(st, ast.AugAssign) and isinstance(st.op, ast.Add) and \
                isinstance(st.value, ast.Constant) and st.value.value == 1:
            t = st.target
            if isinstance(t, ast.Name) and t.id == "k":
                return [pad + "let s : LS := { s with k := s.k + 1 }"] + self.stmts(rest, ind)
            if isinstance(t, ast.Subscript) and ast.unparse(t.value) == "hist":
                ix = t.slice
                need(isinstance(ix, ast.BinOp) and isinstance(ix.op, ast.Sub) and
                     ast.unparse(ix.left) == "k" and isinstance(ix.right, ast.Constant) and
                     isinstance(ix.right.value, int), "hist index " + ast.unparse(ix))
                return [pad + f"let s : LS := {{ s with hist := s.hist.modify "
                        f"(s.k - {ix.right.value}) (· + 1) }}"] + self.stmts(rest, ind)
        if isinstance(st, ast.If):
            return ([pad + f"if {self.bexpr(st.test)} then"] +
                    self.stmts(list(st.body) + rest, ind + 1) +
                    [pad + "else"] +
                    self.stmts(list(st.orelse) + rest, ind + 1))
        raise Shape("statement not translatable: " + ast.unparse(st))


def line_dist():
    no, header, body = block_after(r"^cdef void _line_dist\(")
    need(param_names(header) == LD_PARAMS, "_line_dist: parameter list changed: " +
         str(param_names(header)))
    cdef, txt = strip_cdef(body)
    need("int i, I, j, k = 0, N = n_time" in cdef, "_line_dist: cdef of the integers: " + str(cdef))
    need("bint line, missing_flag = False" in cdef, "_line_dist: cdef of the flags: " + str(cdef))
    tree = ast.parse(txt).body
    need(len(tree) == 2 and isinstance(tree[0], ast.If) and isinstance(tree[1], ast.For),
         "_line_dist: prelude + outer loop expected")
    pre = tree[0]
    need(ast.unparse(pre.test) == "skip_main" and not pre.orelse and len(pre.body) == 1 and
         isinstance(pre.body[0], ast.AugAssign) and ast.unparse(pre.body[0].target) == "N" and
         isinstance(pre.body[0].op, (ast.Sub, ast.Add)), "_line_dist: prelude")
    pre_op = "-" if isinstance(pre.body[0].op, ast.Sub) else "+"
    pre_val = int_expr(pre.body[0].value, IENV)
    outer = tree[1]
    need(ast.unparse(outer.target) == "i" and isinstance(outer.iter, ast.Call) and
         ast.unparse(outer.iter.func) == "range" and len(outer.iter.args) == 1 and not outer.orelse,
         "_line_dist: outer loop header")
    outer_bound = int_expr(outer.iter.args[0], IENV)
    need(isinstance(outer.body[0], ast.For), "_line_dist: inner loop first")
    inner = outer.body[0]
    need(ast.unparse(inner.target) == "j" and isinstance(inner.iter, ast.Call) and
         ast.unparse(inner.iter.func) == "range" and len(inner.iter.args) == 1 and not inner.orelse,
         "_line_dist: inner loop header")
    inner_bound = int_expr(inner.iter.args[0], IENV)
    b = Body()
    ib = b.stmts(list(inner.body), 1)
    after = Body().stmts(list(outer.body[1:]), 1)
    out = []
    out.append(f"/- numerics.pyx:{no}  {header}\n{txt.strip()}\n-/")
    out.append("/-- the loop-carried variables of `_line_dist` -/\n"
               "structure LS where\n  k : Nat\n  mf : Bool\n  line : Bool\n  hist : List Nat\n")
    out.append("/-- one iteration of the `for j` loop -/\n"
               "def innerBody {α : Type} (O : FOps α) (R : Int → Int → Bool) (metric : Int → Int → α) "
               "(eps : α) (dimZero black : Bool)\n    (M : Int → Bool) (missing_values : Bool) "
               "(ij2I : Int → Int → Int → Int) (N i j : Int) (s : LS) : LS :=\n" + "\n".join(ib) + "\n")
    out.append("/-- the statements after the inner loop -/\n"
               "def afterInner (s : LS) : LS :=\n" + "\n".join(after) + "\n")
    out.append(
        "def lineDist {α : Type} (O : FOps α) (n_time : Int) (hist : List Nat) (R : Int → Int → Bool) "
        "(metric : Int → Int → α) (eps : α)\n    (dimZero black : Bool) (M : Int → Bool) "
        "(missing_values : Bool) (i2J : Int → Int → Int)\n    (ij2I : Int → Int → Int → Int) "
        "(skip_main : Bool) : List Nat :=\n"
        "  let s : LS := { k := 0, mf := false, line := false, hist := hist }\n"
        "  let N : Int := n_time\n"
        f"  let N : Int := if skip_main then N {pre_op} {pre_val} else N\n"
        f"  ((List.range ({outer_bound}).toNat).foldl (fun (s : LS) (i : Nat) =>\n"
        "    let i : Int := i\n"
        f"    afterInner ((List.range ({inner_bound}).toNat).foldl (fun (s : LS) (j : Nat) =>\n"
        "      innerBody O R metric eps dimZero black M missing_values ij2I N i (j : Int) s) s)) s).hist\n")
    return "\n".join(out)


# ---------------------------------------------------------------------------------------------
# _rejection_sampling
# ---------------------------------------------------------------------------------------------

class Draws:
    def __init__(self):
        self.n = 0

    def rexpr(self, e):
        """rational expression; every `random.random()` becomes the next draw `u<k>`"""
        if isinstance(e, ast.Call) and ast.unparse(e.func) == "random.random" and not e.args:
            self.n += 1
            return f"u{self.n}"
        if isinstance(e, ast.Name) and e.id == "N":
            return "(N : Rat)"
        if isinstance(e, ast.BinOp) and isinstance(e.op, (ast.Mult, ast.Add, ast.Sub)):
            op = {ast.Mult: "*", ast.Add: "+", ast.Sub: "-"}[type(e.op)]
            return f"({self.rexpr(e.left)} {op} {self.rexpr(e.right)})"
        if isinstance(e, ast.Subscript) and ast.unparse(e.value) == "dist" and \
                isinstance(e.slice, ast.Name) and e.slice.id == "x":
            return "(dist x)"
        raise Shape("rational expression not translatable: " + ast.unparse(e))

    def iexpr(self, e):
        if isinstance(e, ast.Call) and ast.unparse(e.func) == "int" and len(e.args) == 1 and \
                isinstance(e.args[0], ast.Call) and ast.unparse(e.args[0].func) == "floor" and \
                len(e.args[0].args) == 1:
            return f"(Rat.floor {self.rexpr(e.args[0].args[0])})"
        raise Shape("index expression not translatable: " + ast.unparse(e))


def rejection():
    no, header, body = block_after(r"^def _rejection_sampling\(")
    need(param_names(header) == ["dist", "resampled_dist", "N", "M"],
         "_rejection_sampling: parameters changed")
    cdef, txt = strip_cdef(body)
    need("int i = 0, x" in cdef, "_rejection_sampling: cdef line " + str(cdef))
    tree = ast.parse(txt).body
    need(len(tree) == 1 and isinstance(tree[0], ast.While) and not tree[0].orelse and
         ast.unparse(tree[0].test) == "i < M", "_rejection_sampling: while i < M expected")
    d = Draws()
    lines = []

    def stmts(sts, ind):
        pad = "  " * ind
        out = []
        for k, st in enumerate(sts):
            if isinstance(st, ast.Assign) and ast.unparse(st.targets[0]) == "x":
                out.append(pad + f"let x : Int := {d.iexpr(st.value)}")
            elif isinstance(st, ast.If) and isinstance(st.test, ast.Compare) and \
                    len(st.test.ops) == 1 and isinstance(st.test.ops[0], (ast.Lt, ast.Gt)):
                a = d.rexpr(st.test.left)
                b = d.rexpr(st.test.comparators[0])
                if isinstance(st.test.ops[0], ast.Gt):
                    a, b = b, a
                rest = sts[k + 1:]
                out.append(pad + f"if {a} < {b} then")
                out += stmts(list(st.body) + rest, ind + 1)
                out.append(pad + "else")
                out += stmts(list(st.orelse) + rest, ind + 1)
                return out
            elif isinstance(st, ast.AugAssign) and isinstance(st.op, ast.Add) and \
                    isinstance(st.value, ast.Constant) and st.value.value == 1:
                t = ast.unparse(st.target)
                if t == "i":
                    out.append(pad + "let s : RS := { s with i := s.i + 1 }")
                elif t == "resampled_dist[x]":
                    out.append(pad + "let s : RS := { s with res := s.res.modify x.toNat (· + 1) }")
                else:
                    raise Shape("_rejection_sampling: " + ast.unparse(st))
            else:
                raise Shape("_rejection_sampling: " + ast.unparse(st))
        out.append(pad + "s")
        return out

    bodyl = stmts(list(tree[0].body), 1)
    need(d.n == 2, f"_rejection_sampling: {d.n} draws per iteration")
    return (f"/- numerics.pyx:{no}  {header}\n{txt.strip()}\n-/\n"
            "/-- loop-carried variables of `_rejection_sampling` -/\n"
            "structure RS where\n  i : Nat\n  res : List Nat\n\n"
            "/-- one iteration of the `while` loop; `u1`, `u2`: the values of `random.random()` in\n"
            "evaluation order -/\n"
            "def rejIter (dist : Int → Rat) (N : Int) (u1 u2 : Rat) (s : RS) : RS :=\n" +
            "\n".join(bodyl) + "\n\n"
            "/-- the `while i < M` loop over a stream of draw pairs (it stops at the end of the "
            "stream) -/\n"
            "def rejLoop (dist : Int → Rat) (N M : Int) : List (Rat × Rat) → RS → RS\n"
            "  | [], s => s\n"
            "  | (u1, u2) :: t, s =>\n"
            "    if (s.i : Int) < M then rejLoop dist N M t (rejIter dist N u1 u2 s) else s\n")


WRAPPERS = ["_vertline_dist", "_diagline_dist", "_white_vertline_dist",
            "_vertline_dist_sequential", "_diagline_dist_sequential",
            "_vertline_dist_missingvalues", "_diagline_dist_missingvalues",
            "_vertline_dist_sequential_missingvalues", "_diagline_dist_sequential_missingvalues"]


def wrappers():
    out = []
    for w in WRAPPERS:
        no, header, body = block_after(r"^def " + w + r"\(")
        params = param_names(header)
        txt = "\n".join(body)
        m = re.search(r"_line_dist\(\s*(.*?)\)\s*$", txt, re.S)
        need(m, f"{w}: no _line_dist call")
        args = [a.strip() for a in m.group(1).replace("\n", " ").split(",")]
        need(len(args) == len(LD_PARAMS), f"{w}: {len(args)} arguments")
        a = dict(zip(LD_PARAMS, args))
        need(a["n_time"] == "n_time" and a["hist"] == "hist", f"{w}: n_time / hist")
        seq = a["dim"] != "0"
        need(a["dim"] in ("0", "dim"), f"{w}: dim argument {a['dim']}")
        if seq:
            need(a["metric"] == "metric_supremum" and a["E"] == "E" and a["eps"] == "eps"
                 and a["R"] == "null_R" and "E" in params and "eps" in params and "dim" in params,
                 f"{w}: sequential arguments {a}")
            need(re.search(r"null_R = np\.array\(\[\[\]\]", txt), f"{w}: null_R")
        else:
            need(a["metric"] == "metric_null" and a["E"] == "E_null" and a["eps"] == "0"
                 and a["R"] == "R" and "R" in params, f"{w}: matrix arguments {a}")
        mv = {"True": "true", "False": "false"}
        need(a["black"] in mv and a["missing_values"] in mv and a["skip_main"] in mv,
             f"{w}: boolean arguments {a}")
        if a["missing_values"] == "True":
            need(a["M"] == "M" and "M" in params, f"{w}: M argument")
        else:
            need(a["M"] == "M_null", f"{w}: M argument")
        need(a["i2J"] in ("i2J_vertline", "i2J_diagline") and
             a["ij2I"] in ("ij2I_vertline", "ij2I_diagline"), f"{w}: line type {a}")
        lp = (["{α : Type} (O : FOps α)"] if seq else []) + ["(n_time : Int)", "(hist : List Nat)"]
        lp.append("(E : Int → Int → α) (eps : α) (dim : Int)" if seq else "(R : Int → Int → Bool)")
        if a["missing_values"] == "True":
            lp.append("(M : Int → Bool)")
        call = ["O" if seq else "vOps", "n_time", "hist",
                "(fun _ _ => false)" if seq else "R",
                "(fun I j => metric_supremum O I j dim E)" if seq else "(fun _ _ => none)",
                "eps" if seq else "(some 0)",
                "false" if seq else "true",
                mv[a["black"]],
                "M" if a["missing_values"] == "True" else "(fun _ => false)",
                mv[a["missing_values"]], a["i2J"], a["ij2I"], mv[a["skip_main"]]]
        out.append(f"/- numerics.pyx:{no}  {w}: _line_dist({', '.join(args)}) -/\n"
                   f"def {w} {' '.join(lp)} : List Nat :=\n  lineDist {' '.join(call)}\n")
    return "\n".join(out)


def main():
    parts = ["-- GENERATED by translate/gen_C08.py from src/pyunicorn/timeseries/_ext/numerics.pyx"
             " -- do not edit",
             "import Pyunicorn.Model.Recurrence",
             "import Pyunicorn.Model.LineDistFloat",
             "namespace Pyunicorn.Generated.StructC08",
             "open Pyunicorn.Recurrence (V)",
             "open Pyunicorn.LineDist (FOps vOps store2)\n"]
    for name, args, src, body in inline_helpers():
        parts.append(f"/- {src} -/\ndef {name} ({' '.join(args)} : Int) : Int := {body}\n")
    parts.append(metric_supremum())
    parts.append(supremum_matrix())
    parts.append(line_dist())
    parts.append(wrappers())
    parts.append(rejection())
    parts.append("end Pyunicorn.Generated.StructC08\n")
    os.makedirs(os.path.dirname(OUT), exist_ok=True)
    txt = "\n".join(parts)
    if not os.path.exists(OUT) or open(OUT).read() != txt:
        open(OUT, "w").write(txt)


if __name__ == "__main__":
    try:
        main()
    except Shape as e:
        print("gen_C08: source no longer has the expected shape: " + str(e))
        sys.exit(1)
