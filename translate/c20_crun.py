"""C20 round 5 — pointer walks with running offsets in the raw-pointer C routines.

`gen_C20.c_sites` lists subscripts `a[e]` and pointer formations `p = a + e` whose `e` is
closed-form in the scalar parameters and loop variables.  The two mutual-information routines
walk their arrays instead:

    in_time = in_bins = 0;
    for (i = 0; i < N; i++) {
        p_original = original_data + in_time;           /* running integer offset   */
        for (k = 0; k < n_time; k++) {
            ... *p_original ...                         /* dereference              */
            p_hist = hist + in_bins + *p_symbolic;      /* offset read from memory  */
            (*p_hist)++;
            p_original++;                               /* running pointer          */
        }
        in_time += n_time; in_bins += n_bins;
    }

This module executes the statement tree of such a function symbolically and resolves every pointer
formation and every dereference `*p` to `array[closed-form index]`:

 * a `for (v = lo; v < hi; v++) { body }` whose body ENDS with increments `x++;` / `x += c;` (`c`
   closed-form, `x` an integer local or a local pointer, not modified anywhere else in the body)
   makes `x` an induction variable: inside the body `x = x_before + c * (v - lo)`;
 * every other variable modified in a loop body or in an `if` branch is *unknown* at the entry of
   that body and after the loop / the `if` until it is assigned again — a use of an unknown value
   in an offset, or a dereference of an unknown pointer, is `Untranslatable` (the check then reports
   that the obligation cannot be generated; nothing is guessed);
 * a value read from memory inside an offset expression (`*p_symbolic`) becomes a free integer
   parameter `s_<pointer>` of the generated site list (the theorem quantifies over stored bin numbers
   in `[0, n_bins)`; the stores into those arrays are listed in `<r>_stores` and pinned by a theorem).

Output: `(sites, symbols, stores)`; a site is `(kind, array, index, guard-loops, line)` with
kind 0 = dereference, 1 = pointer formation `p = array + index`.
"""
import ast
import re


class Untranslatable(Exception):
    pass


# --------------------------------------------------------------------------- statement tree

def _skip(s, k):
    while k < len(s) and s[k].isspace():
        k += 1
    return k


def _balanced(s, k):
    """s[k] == '(' -> (inner text, index after the closing parenthesis)"""
    depth = 0
    for e in range(k, len(s)):
        depth += s[e] == "("
        depth -= s[e] == ")"
        if depth == 0:
            return s[k + 1:e], e + 1
    raise Untranslatable("unbalanced parenthesis")


def parse_stmt(s, k):
    """-> (stmt, index after it); stmt = ('for', var, lo, op, hi, body, pos) |
    ('if', cond, then, else, pos) | ('block', stmts, pos) | ('simple', text, pos)"""
    k = _skip(s, k)
    if s[k] == "{":
        stmts, k2 = [], k + 1
        while True:
            k2 = _skip(s, k2)
            if s[k2] == "}":
                return ("block", stmts, k), k2 + 1
            st, k2 = parse_stmt(s, k2)
            stmts.append(st)
    m = re.compile(r"for\s*\(").match(s, k)
    if m:
        hdr, k2 = _balanced(s, m.end() - 1)
        parts = [p.strip() for p in hdr.split(";")]
        if len(parts) != 3:
            raise Untranslatable(f"for header {hdr!r}")
        mi = re.match(r"(?:int\s+|long\s+)?(\w+)\s*=\s*(.+)$", parts[0])
        mc = re.match(r"(\w+)\s*(<=|<)\s*(.+)$", parts[1])
        mu = re.match(r"(\w+)\s*\+\+$", parts[2])
        if not (mi and mc and mu) or len({mi.group(1), mc.group(1), mu.group(1)}) != 1:
            raise Untranslatable(f"for header {hdr!r}")
        body, k3 = parse_stmt(s, k2)
        return ("for", mi.group(1), mi.group(2).strip(), mc.group(2), mc.group(3).strip(),
                _stmts(body), k), k3
    m = re.compile(r"if\s*\(").match(s, k)
    if m:
        cond, k2 = _balanced(s, m.end() - 1)
        then, k3 = parse_stmt(s, k2)
        k4 = _skip(s, k3)
        els = []
        if re.compile(r"else\b").match(s, k4):
            e, k3 = parse_stmt(s, k4 + 4)
            els = _stmts(e)
        return ("if", " ".join(cond.split()), _stmts(then), els, k), k3
    if re.compile(r"(while|do|switch|goto)\b").match(s, k):
        raise Untranslatable("control statement " + s[k:k + 20])
    e = s.index(";", k)
    return ("simple", " ".join(s[k:e].split()), k), e + 1


def _stmts(st):
    return st[1] if st[0] == "block" else [st]


# --------------------------------------------------------------------------- expressions

TOK = re.compile(r"\s*(\w+|\+\+|--|\+=|-=|==|!=|<=|>=|&&|\|\||[-+*/()<>=!,.?:&|\[\]])")


def tokens(text):
    out, k = [], 0
    text = text.strip()
    while k < len(text):
        m = TOK.match(text, k)
        if not m:
            raise Untranslatable(f"token at {text[k:k + 10]!r}")
        out.append(m.group(1))
        k = m.end()
    return out


def derefs(text):
    """identifiers dereferenced by a unary `*` in the statement text"""
    toks = tokens(text)
    out = []
    for i, t in enumerate(toks):
        if t == "*" and i + 1 < len(toks) and re.match(r"^[A-Za-z_]\w*$", toks[i + 1]):
            prev = toks[i - 1] if i else None
            if prev is None or prev in ("(", "+", "-", "*", "/", "=", "+=", "-=", ",", "<", ">",
                                        "==", "!=", "<=", ">=", "&&", "||", "!", "?", ":"):
                out.append(toks[i + 1])
    return out


def with_placeholders(text):
    """replace unary `*p` by the name `DEREF_p`, so that the rest parses as a Python expression"""
    toks = tokens(text)
    out, i = [], 0
    while i < len(toks):
        t = toks[i]
        if t == "*" and i + 1 < len(toks) and re.match(r"^[A-Za-z_]\w*$", toks[i + 1]) and \
                (i == 0 or toks[i - 1] in ("(", "+", "-", "*", "/", "=", ",")):
            out.append("DEREF_" + toks[i + 1])
            i += 2
            continue
        out.append(t)
        i += 1
    return " ".join(out)


def add(a, b):
    if a == "0":
        return b
    if b == "0":
        return a
    return f"({a} + {b})"


def mul(a, b):
    if a == "0" or b == "0":
        return "0"
    if a == "1":
        return b
    if b == "1":
        return a
    return f"({a} * {b})"


def sub(a, b):
    return a if b == "0" else f"({a} - {b})"


# --------------------------------------------------------------------------- symbolic execution

class Run:
    def __init__(self, body, line0, ptrparams, scalars, types, ptrlocals):
        self.body, self.line0 = body, line0
        self.ptrparams = set(ptrparams)          # array parameters
        self.scalars = set(scalars)              # integer scalar parameters
        self.types = types                       # integer locals -> C type
        self.ptrlocals = set(ptrlocals)
        self.sites, self.symbols, self.stores = [], [], []
        self.loops = []

    def line(self, pos):
        return self.line0 + self.body[:pos].count("\n")

    # -- expressions
    def ev(self, text, env, what):
        """closed-form Lean expression of an integer C expression, or None if it involves
        something that is not an integer (floats, calls, casts)"""
        try:
            node = ast.parse(with_placeholders(text), mode="eval").body
        except SyntaxError:
            return None
        return self.evn(node, env, what)

    def evn(self, node, env, what):
        if isinstance(node, ast.BinOp) and isinstance(node.op, (ast.Add, ast.Sub, ast.Mult)):
            a, b = self.evn(node.left, env, what), self.evn(node.right, env, what)
            if a is None or b is None:
                return None
            return {ast.Add: add, ast.Sub: sub, ast.Mult: mul}[type(node.op)](a, b)
        if isinstance(node, ast.Constant) and isinstance(node.value, int):
            return str(node.value)
        if isinstance(node, ast.Name):
            n = node.id
            if n.startswith("DEREF_"):
                p = n[6:]
                sym = "s_" + p
                if sym not in self.symbols:
                    self.symbols.append(sym)
                return sym
            if n in self.scalars or any(n == l[0] for l in self.loops):
                return n
            if n in env:
                if env[n] is None:
                    raise Untranslatable(f"{what}: value of {n} is not known here")
                return env[n]
            return None
        return None

    # -- statements
    def modified(self, stmts, acc):
        for st in stmts:
            if st[0] == "simple":
                m = re.match(r"^(\w+)\s*(\+\+|--|\+=|-=|=(?!=))", st[1])
                if m:
                    acc.add(m.group(1))
                    # chained assignment a = b = 0
                    rest = st[1][m.end():]
                    while True:
                        m2 = re.match(r"^\s*(\w+)\s*=(?!=)", rest)
                        if not m2:
                            break
                        acc.add(m2.group(1))
                        rest = rest[m2.end():]
            elif st[0] == "for":
                acc.add(st[1])
                self.modified(st[5], acc)
            elif st[0] == "if":
                self.modified(st[2], acc)
                self.modified(st[3], acc)
        return acc

    def deref_sites(self, text, env, pos):
        for p in derefs(text):
            if p in self.ptrparams:
                self.sites.append((0, p, "0", list(self.loops), self.line(pos)))
                continue
            if p not in self.ptrlocals:
                raise Untranslatable(f"dereference of {p}, which is not a pointer of the routine")
            v = env.get(p)
            if v is None:
                raise Untranslatable(f"line {self.line(pos)}: *{p} — the pointer's value is not known here")
            self.sites.append((0, v[0], v[1], list(self.loops), self.line(pos)))

    def run(self, stmts, env):
        for st in stmts:
            if st[0] == "simple":
                self.simple(st[1], env, st[2])
            elif st[0] == "if":
                self.deref_sites(st[1], env, st[4])
                e1, e2 = dict(env), dict(env)
                self.run(st[2], e1)
                self.run(st[3], e2)
                for v in self.modified(st[2], set()) | self.modified(st[3], set()):
                    env[v] = None
            elif st[0] == "for":
                self.loop(st, env)

    def loop(self, st, env):
        _, var, lo, op, hi, body, pos = st
        lo_e, hi_e = self.ev(lo, env, "loop bound"), self.ev(hi, env, "loop bound")
        if lo_e is None or hi_e is None:
            raise Untranslatable(f"line {self.line(pos)}: loop bounds {lo!r}, {hi!r}")
        # trailing increments of the body
        ind, k = {}, len(body)
        while k > 0 and body[k - 1][0] == "simple":
            t = body[k - 1][1]
            m = re.match(r"^(\w+)\s*\+\+$", t)
            m2 = re.match(r"^(\w+)\s*\+=\s*(.+)$", t)
            if m:
                name, step = m.group(1), "1"
            elif m2:
                name, step = m2.group(1), self.ev(m2.group(2), env, "increment")
                if step is None or derefs(m2.group(2)):
                    break
            else:
                break
            if name in ind:
                break
            ind[name] = step
            k -= 1
        head = body[:k]
        mod_head = self.modified(head, set())
        inner = dict(env)
        for v in mod_head:
            inner[v] = None                       # assigned somewhere in the body: unknown at entry
        self.loops.append((var, lo_e, op, hi_e))
        for name, step in ind.items():
            if name in mod_head or name == var:
                raise Untranslatable(f"line {self.line(pos)}: {name} is incremented and also modified "
                                     f"elsewhere in the loop body")
            before = env.get(name)
            off = mul(sub(var, lo_e), step)
            if before is None:
                inner[name] = None
            elif name in self.ptrlocals:
                inner[name] = (before[0], add(before[1], off))
            else:
                inner[name] = add(before, off)
        self.run(head, inner)
        self.loops.pop()
        for v in mod_head | set(ind) | {var}:
            env[v] = None

    def simple(self, text, env, pos):
        if not text:
            return
        m = re.match(r"^(\w+)\s*(\+\+|--|\+=|-=)", text)
        if m:                                         # an increment that is not a loop-closing one
            self.deref_sites(text[m.end():], env, pos)
            env[m.group(1)] = None
            return
        m = re.match(r"^(\w+)\s*=(?!=)\s*(.*)$", text)
        if m:
            lhs, rhs = m.group(1), m.group(2)
            chain = [lhs]
            while True:
                m2 = re.match(r"^(\w+)\s*=(?!=)\s*(.*)$", rhs)
                if not m2:
                    break
                chain.append(m2.group(1))
                rhs = m2.group(2)
            if lhs in self.ptrlocals:
                if len(chain) > 1:
                    raise Untranslatable(f"chained pointer assignment {text!r}")
                mm = re.match(r"^(\w+)\s*(?:\+\s*(.+))?$", rhs)
                if not mm or mm.group(1) not in self.ptrparams:
                    raise Untranslatable(f"line {self.line(pos)}: pointer assignment {text!r}")
                off_text = mm.group(2) or "0"
                self.deref_sites(off_text, env, pos)
                off = self.ev(off_text, env, f"line {self.line(pos)}: {text}")
                if off is None:
                    raise Untranslatable(f"line {self.line(pos)}: offset {off_text!r}")
                env[lhs] = (mm.group(1), off)
                self.sites.append((1, mm.group(1), off, list(self.loops), self.line(pos)))
                return
            self.deref_sites(rhs, env, pos)
            val = self.ev(rhs, env, text) if all(c in self.types for c in chain) else None
            for c in chain:
                if c in self.types:
                    env[c] = val
            return
        m = re.match(r"^\(?\s*\*\s*(\w+)\s*\)?\s*(\+\+|--|\+=|-=|=(?!=))\s*(.*)$", text)
        if m:                                         # store through a pointer
            self.deref_sites("*" + m.group(1), env, pos)
            self.deref_sites(m.group(3), env, pos) if m.group(3) else None
            p = m.group(1)
            arr = p if p in self.ptrparams else env[p][0]
            self.stores.append((arr, (m.group(2) + " " + m.group(3)).strip()))
            return
        self.deref_sites(text, env, pos)


def analyse(body, line0, ptrparams, scalars, types):
    """body: text of the C function from `{` to `}` (comments stripped)"""
    ptrlocals = set()
    for m in re.finditer(r"\b(?:float|double|long|int|signed char)\s*((?:\*\s*\w+\s*,?\s*)+);", body):
        for name in re.findall(r"\*\s*(\w+)", m.group(1)):
            ptrlocals.add(name)
    inttypes = {n: t for n, t in types.items() if t in ("int", "long", "unsigned int")}
    tree, _ = parse_stmt(body, 0)
    # declarations are `simple` statements starting with a type name: drop them
    stmts = [st for st in _stmts(tree)
             if not (st[0] == "simple" and re.match(r"^(float|double|long|int|signed char|unsigned int)\b", st[1]))]
    r = Run(body, line0, ptrparams, [s for s in scalars if s in inttypes],
            {n: t for n, t in inttypes.items() if n not in scalars}, ptrlocals)
    env = {}
    r.run(stmts, env)
    return r.sites, r.symbols, r.stores
