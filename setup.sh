#!/bin/bash
# Offline setup: build the Lean project (models, proofs, drivers) and pyunicorn
# from /repo's working tree into /verif/.build.  Non-fatal on partial failure:
# each check rebuilds what it needs and reports precisely.
cd "$(dirname "$0")"
python3 tools/gen_lake.py
for spec in translate/arith_C*.json; do
  [ -f "$spec" ] || continue
  id=$(basename "$spec" .json); id=${id#arith_}
  python3 translate/gen_arith.py "$spec" "lean/Pyunicorn/Generated/Arith${id}.lean" || true
done
for g in translate/gen_C*.py; do
  [ -f "$g" ] || continue
  id=$(basename "$g" .py); id=${id#gen_}
  python3 "$g" "lean/Pyunicorn/Generated/Struct${id}.lean" || true
done
(cd lean && lake build Pyunicorn $(ls Drivers/*.lean | sed 's#Drivers/\(.*\)\.lean#drv_\L\1#') 2>&1 | tail -5) || true
/venv/bin/python - <<'PY'
import sys, os
sys.path.insert(0, os.getcwd())
from harness import common
print("pyunicorn build:", common.ensure_build())
PY
exit 0
