#!/bin/bash
# Offline setup: build the Lean project (models, proofs, driver) and pyunicorn
# from /repo's working tree into /verif/.build.
set -e
cd "$(dirname "$0")"
(cd lean && lake build 2>&1 | tail -5)
/venv/bin/python - <<'PY'
import sys, os
sys.path.insert(0, os.getcwd())
from harness import common
print("pyunicorn build:", common.ensure_build())
PY
